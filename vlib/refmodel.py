"""Independent NumPy reference model (DESIGN.md section 4.3 / 4.4).

Pure NumPy float64.  No JAX, no dags, no lcm imports.  Implements, from the property
statements (not from lcm's source):

* DAG evaluation by argument name with parameters looked up under the function's own name
* grid nodes / generalised coordinates / multilinear interpolation with linear extrapolation
* the Bellman recursion on the full product of all state grids
* Q-values at an arbitrary (off-grid) state (simulation oracle)
* the `supported` predicate of C01
* the documented array layout of C05 (to / from lcm layout)
"""
from __future__ import annotations

import itertools

import numpy as np

from .ir import compile_funcs, grid_nodes

MARGIN_EPS = 1e-9


def coordinate(g, x):
    x = np.asarray(x, dtype=float)
    _, a, b, n = g
    if g[0] == "lin":
        return (x - float(a)) / ((float(b) - float(a)) / (n - 1))
    nodes = grid_nodes(g)
    i = np.clip(np.searchsorted(nodes, x, side="right") - 1, 0, n - 2)
    return i + (x - nodes[i]) / (nodes[i + 1] - nodes[i])


def interp_multilinear(arr, coords):
    """arr: rank-k array, coords: list of k broadcastable arrays. Corner sum with the lower
    index clipped to [0, n-2] and unclipped weights (=> linear extrapolation)."""
    k = len(coords)
    if k == 0:
        return arr
    shape = np.broadcast(*coords).shape
    coords = [np.broadcast_to(np.asarray(c, dtype=float), shape) for c in coords]
    lo, w = [], []
    for ax, c in enumerate(coords):
        n = arr.shape[ax]
        i = np.clip(np.floor(c), 0, n - 2).astype(int)
        lo.append(i)
        w.append(c - i)
    out = np.zeros(shape)
    for corner in itertools.product((0, 1), repeat=k):
        idx = tuple(lo[a] + corner[a] for a in range(k))
        weight = np.ones(shape)
        for a in range(k):
            weight = weight * (w[a] if corner[a] else (1 - w[a]))
        out = out + weight * arr[idx]
    return out


class Unsupported(Exception):
    pass


class Reference:
    def __init__(self, spec):
        self.spec = spec
        self.funcs = compile_funcs(spec, np, with_margins=True)
        self.state_names = list(spec.states)
        self.choice_names = list(spec.choices)
        self.disc_states = [s for s in self.state_names if spec.states[s][0] == "disc"]
        self.cont_states = [s for s in self.state_names if spec.states[s][0] != "disc"]
        self.filters = spec.filters()
        self.constraints = spec.constraints()
        self.stoch = spec.stochastic_states()
        # canonical layout of the reference: discrete states (declaration order) then
        # continuous states (declaration order)
        self.order = self.disc_states + self.cont_states
        self.sgrids = [grid_nodes(spec.states[s]) for s in self.order]
        self.cgrids = [grid_nodes(spec.choices[c]) for c in self.choice_names]
        self.V = None
        self.feas = None
        self.ambiguous = False
        self._layout_cache = {}

    # ------------------------------------------------------------ DAG by name
    def ev(self, name, env, t, cache):
        if name in cache:
            return cache[name]
        is_margin = name.startswith("__margin_")
        pname = name[len("__margin_"):] if is_margin else name
        f = self.spec.functions[pname]
        kw = {}
        for a in f["args"]:
            if a == "_period":
                kw[a] = t
            elif a in env:
                kw[a] = env[a]
            elif a in self.spec.functions:
                kw[a] = self.ev(a, env, t, cache)
            else:
                kw[a] = self.spec.params[pname][a]
        val = self.funcs[name](**kw)
        cache[name] = val
        return val

    def feasibility(self, env, t, cache, shape):
        feas = np.ones(shape, dtype=bool)
        amb = np.zeros(shape, dtype=bool)
        for n in self.filters + self.constraints:
            feas = feas & np.broadcast_to(np.asarray(self.ev(n, env, t, cache), dtype=bool), shape)
            if self.spec.functions[n].get("margin"):
                g = np.broadcast_to(
                    np.asarray(self.ev("__margin_" + n, env, t, cache), dtype=float), shape
                )
                amb = amb | (np.abs(g) < MARGIN_EPS)
        return feas, amb

    def transition_prob(self, s, label, env, t, shape):
        deps = self.spec.functions[f"next_{s}"]["args"]
        P = np.asarray(self.spec.params["shocks"][s], dtype=float)
        idx = tuple(
            (np.full(shape, t) if d == "_period" else np.broadcast_to(env[d], shape)).astype(int)
            for d in deps
        )
        return P[idx + (label,)]

    def q_values(self, env, t, v_next):
        """env: var -> broadcastable arrays.  Returns (Q, feasible, ambiguous)."""
        cache = {}
        shape = np.broadcast(*env.values()).shape if env else ()
        u = np.broadcast_to(np.asarray(self.ev("utility", env, t, cache), dtype=float), shape)
        feas, amb = self.feasibility(env, t, cache, shape)
        if v_next is None:
            return u, feas, amb
        nxt = {}
        for s in self.state_names:
            if s not in self.stoch:
                nxt[s] = np.broadcast_to(np.asarray(self.ev(f"next_{s}", env, t, cache)), shape)
        ev = np.zeros(shape)
        sizes = [self.spec.states[s][1] for s in self.stoch]
        with np.errstate(invalid="ignore", over="ignore"):
            for labels in itertools.product(*[range(n) for n in sizes]):
                p = np.ones(shape)
                full = dict(nxt)
                for s, lab in zip(self.stoch, labels):
                    p = p * self.transition_prob(s, lab, env, t, shape)
                    full[s] = np.full(shape, lab)
                ev = ev + p * v_next(full)
            beta = float(self.spec.params["beta"])
            q = u + beta * ev
        return q, feas, amb

    def make_v_next(self, V):
        """V on the full product: (discrete states in decl. order, continuous states in decl.
        order).  Returns f(next-state dict) -> values."""
        spec = self.spec
        nd = len(self.disc_states)

        def v_next(nx):
            d_idx = tuple(np.asarray(nx[s]).astype(int) for s in self.disc_states)
            coords = [coordinate(spec.states[s], nx[s]) for s in self.cont_states]
            if not self.cont_states:
                return V[d_idx]
            shape = np.broadcast(*(list(d_idx) + coords)).shape
            k = len(coords)
            lo, w = [], []
            for ax, c in enumerate(coords):
                n = V.shape[nd + ax]
                c = np.broadcast_to(c, shape)
                i = np.clip(np.floor(c), 0, n - 2).astype(int)
                lo.append(i)
                w.append(c - i)
            out = np.zeros(shape)
            d_b = tuple(np.broadcast_to(d, shape) for d in d_idx)
            with np.errstate(invalid="ignore"):
                for corner in itertools.product((0, 1), repeat=k):
                    idx = d_b + tuple(lo[a] + corner[a] for a in range(k))
                    weight = np.ones(shape)
                    for a in range(k):
                        weight = weight * (w[a] if corner[a] else (1 - w[a]))
                    out = out + weight * V[idx]
            return out

        return v_next

    # ------------------------------------------------------------------ solve
    def grid_env(self):
        ns, nc = len(self.order), len(self.choice_names)
        env = {}
        for i, s in enumerate(self.order):
            env[s] = self.sgrids[i].reshape([-1 if j == i else 1 for j in range(ns + nc)])
        for i, c in enumerate(self.choice_names):
            env[c] = self.cgrids[i].reshape([-1 if j == ns + i else 1 for j in range(ns + nc)])
        full_shape = tuple(len(g) for g in self.sgrids + self.cgrids)
        return env, full_shape

    def solve(self):
        T = self.spec.n_periods
        ns, nc = len(self.order), len(self.choice_names)
        env, full_shape = self.grid_env()
        self.env, self.full_shape = env, full_shape
        Vs, feas_all, q_all = [None] * T, [None] * T, [None] * T
        self.ambiguous = False
        ax = tuple(range(ns, ns + nc))
        for t in reversed(range(T)):
            v_next = None if t == T - 1 else self.make_v_next(Vs[t + 1])
            q, f, amb = self.q_values(env, t, v_next)
            q = np.broadcast_to(q, full_shape)
            f = np.broadcast_to(f, full_shape)
            amb = np.broadcast_to(amb, full_shape)
            qm = np.where(f, q, -np.inf)
            Vs[t] = qm.max(axis=ax) if nc else qm
            feas_all[t] = f
            q_all[t] = q
            if amb.any():
                lo = np.where(f & ~amb, q, -np.inf)
                hi = np.where(f | amb, q, -np.inf)
                vlo = lo.max(axis=ax) if nc else lo
                vhi = hi.max(axis=ax) if nc else hi
                if not np.array_equal(vlo, vhi, equal_nan=True):
                    self.ambiguous = True
        self.V, self.feas, self.Q = Vs, feas_all, q_all
        return Vs

    # ------------------------------------------------- Q at an arbitrary state
    def q_at(self, states, t, V_next_full):
        """states: name -> scalar.  Returns (q, feas, amb) over the product of all choice
        grids in declaration order (shape () if there are no choices)."""
        nc = len(self.choice_names)
        env = {}
        for s in self.state_names:
            v = states[s]
            env[s] = np.asarray(int(round(float(v)))) if self.spec.states[s][0] == "disc" else np.asarray(float(v))
        for k, c in enumerate(self.choice_names):
            env[c] = self.cgrids[k].reshape([-1 if j == k else 1 for j in range(nc)])
        shape = tuple(len(g) for g in self.cgrids)
        v_next = None if V_next_full is None else self.make_v_next(V_next_full)
        q, f, amb = self.q_values(env, t, v_next)
        return (
            np.broadcast_to(q, shape),
            np.broadcast_to(f, shape),
            np.broadcast_to(amb, shape),
        )

    def eval_at(self, name, row, t):
        """Evaluate model function ``name`` at a dict of scalar states+choices."""
        env = {}
        for v, g in self.spec.variables.items():
            if v in row:
                env[v] = np.asarray(int(round(float(row[v])))) if g[0] == "disc" else np.asarray(float(row[v]))
        return self.ev(name, env, t, {})

    # ----------------------------------------------------------------- layout
    def layout(self, t):
        """Documented layout of period t: (restricted states, restricted choices,
        unrestricted discrete states, continuous states, keep-mask over the product of the
        restricted states (None if no variable is restricted), filter mask over restricted
        states x restricted choices)."""
        if t in self._layout_cache:
            return self._layout_cache[t]
        spec = self.spec
        sp_states, sp_choices = spec.restricted()
        dd = [s for s in spec.states if s not in sp_states and spec.states[s][0] == "disc"]
        cs = [s for s in spec.states if s not in sp_states and spec.states[s][0] != "disc"]
        keep = None
        mask = None
        if sp_states or sp_choices:
            vars_ = sp_states + sp_choices
            grids = [grid_nodes(spec.variables[v]) for v in vars_]
            env = {
                v: g.reshape([-1 if j == i else 1 for j in range(len(vars_))])
                for i, (v, g) in enumerate(zip(vars_, grids))
            }
            shape = tuple(len(g) for g in grids)
            m = np.ones(shape, bool)
            cache = {}
            for f in self.filters:
                m = m & np.broadcast_to(np.asarray(self.ev(f, env, t, cache), bool), shape)
            mask = m
            keep = m.any(axis=tuple(range(len(sp_states), len(vars_)))) if sp_choices else m
        out = (sp_states, sp_choices, dd, cs, keep, mask)
        self._layout_cache[t] = out
        return out

    def expected_shape(self, t):
        sp_states, sp_choices, dd, cs, keep, _ = self.layout(t)
        shape = []
        if sp_states:
            shape.append(int(keep.sum()))
        shape += [self.spec.size(s) for s in dd + cs]
        return tuple(shape)

    def to_lcm_layout(self, V_full, t):
        sp_states, sp_choices, dd, cs, keep, _ = self.layout(t)
        perm = [self.order.index(s) for s in sp_states + dd + cs]
        V = np.transpose(V_full, perm)
        if sp_states:
            nsp = len(sp_states)
            flat = V.reshape((-1,) + V.shape[nsp:])
            return flat[keep.reshape(-1)]
        return V

    def from_lcm_layout(self, arr, t):
        """lcm array -> reference full-product layout; excluded combinations become NaN."""
        spec = self.spec
        sp_states, sp_choices, dd, cs, keep, _ = self.layout(t)
        got = np.asarray(arr, dtype=float)
        if sp_states:
            shape_sp = tuple(spec.states[s][1] for s in sp_states)
            full = np.full((int(np.prod(shape_sp)),) + got.shape[1:], np.nan)
            full[keep.reshape(-1)] = got
            full = full.reshape(shape_sp + got.shape[1:])
        else:
            full = got
        names = sp_states + dd + cs
        perm = [names.index(s) for s in self.order]
        return np.transpose(full, perm)

    def in_space(self, states, t):
        """Is the (discrete part of the) state in the period-t space?"""
        sp_states, _, _, _, keep, _ = self.layout(t)
        if not sp_states:
            return True
        idx = tuple(int(round(float(states[s]))) for s in sp_states)
        return bool(keep[idx])

    # -------------------------------------------------------------- supported
    def supported(self, require_feasible=True):
        """C01's supported class.  Needs solve() to have run.  Returns (bool, reason)."""
        spec = self.spec
        T = spec.n_periods
        if self.V is None:
            self.solve()
        # (i) every state enters utility, a constraint or a filter
        used = set()
        for n in ["utility"] + self.filters + self.constraints:
            used |= spec.ancestors(n)
        for s in spec.states:
            if s not in used:
                return False, "state_only_in_transitions"
        # (ii) every filter involves a state; filters reach variables directly
        for f in self.filters:
            anc = spec.ancestors(f)
            if not any(a in spec.states for a in anc):
                return False, "filter_without_state"
            if any(a in spec.functions for a in spec.functions[f]["args"]):
                return False, "filter_through_function"
            if any(not spec.is_disc(a) for a in anc if a in spec.variables):
                return False, "filter_on_continuous"
        sp_states, sp_choices = spec.restricted()
        if sp_choices and not sp_states:
            return False, "filter_without_state"
        for s, g in spec.states.items():
            if g[0] != "disc" and g[3] < 2:
                return False, "single_node_state_grid"
        why = self._space_checks(require_feasible)
        return (why == ""), why

    def leaves_space(self):
        """Do transitions lead from an admissible state (under a feasible choice) into a state
        that the filters exclude in the next period?  (clause (iii) alone)"""
        if self.V is None:
            self.solve()
        return self._space_checks(False) == "transition_into_excluded_state"

    def _space_checks(self, require_feasible):
        spec = self.spec
        T = spec.n_periods
        sp_states, sp_choices = spec.restricted()
        order, ns = self.order, len(self.order)
        lays = [self.layout(t) for t in range(T)]
        # (v) no empty space
        for t in range(T):
            keep = lays[t][4]
            if keep is not None and sp_states and not keep.any():
                return "empty_space"

        def in_space_mask(t):
            """mask over the full state-choice product: state is in the period-t space"""
            keep = lays[t][4]
            shape = self.full_shape
            if not sp_states:
                return np.ones(shape, bool)
            idxs = [order.index(s) for s in sp_states]
            kk = np.transpose(keep, np.argsort(idxs)) if len(idxs) > 1 else keep
            kshape = [1] * len(shape)
            for i in sorted(idxs):
                kshape[i] = shape[i]
            return np.broadcast_to(kk.reshape(kshape), shape)

        nc = len(self.choice_names)
        ax = tuple(range(ns, ns + nc))
        for t in range(T):
            f = np.broadcast_to(self.feas[t], self.full_shape)
            ins = in_space_mask(t)
            # (iv) every state of the space has a feasible choice (not required in the last
            # period, where the documented value is -inf)
            if require_feasible and t < T - 1:
                has = (f & ins).any(axis=ax) if nc else (f & ins)
                st_in = ins.any(axis=ax) if nc else ins
                if (st_in & ~has).any():
                    return "state_without_feasible_choice"
            if t == T - 1 or not sp_states:
                continue
            # (iii) transitions from feasible in-space state-choices stay in the space
            keep_next = lays[t + 1][4]
            env, shape = self.env, self.full_shape
            ff = f & ins
            cache = {}
            det = {}
            stoch = [s for s in sp_states if s in self.stoch]
            for s in sp_states:
                if s not in self.stoch:
                    det[s] = np.broadcast_to(
                        np.asarray(self.ev(f"next_{s}", env, t, cache)), shape
                    ).astype(int)
            sizes = [spec.states[s][1] for s in stoch]
            for labels in itertools.product(*[range(n) for n in sizes]):
                pos = np.ones(shape, bool)
                full = dict(det)
                for s, lab in zip(stoch, labels):
                    pos &= self.transition_prob(s, lab, env, t, shape) > 0
                    full[s] = np.full(shape, lab)
                inspace = keep_next[tuple(full[s] for s in sp_states)]
                if (ff & pos & ~inspace).any():
                    return "transition_into_excluded_state"
        return ""

"""Runner: sharding over worker processes, seeding, case accounting, evidence, replay,
known findings (DESIGN.md section 3.2).

A property module (vlib/props/cXX.py) provides

    ID, TITLE
    BUDGET = {"quick": n_cases, "thorough": n_cases}
    RULE, ASSUMPTIONS
    strategy(tier) -> hypothesis strategy producing a JSON-serialisable case
    check(case) -> Outcome

Optionally ``WORKERS`` (default 16), ``fixed_cases(tier)`` (deterministic extra cases that
are always executed), ``run_custom(tier, seed, k, K, n, stats)`` (replaces the default
generated search, e.g. for state machines), ``TIME_CAP`` seconds per tier.

Exit codes: 0 held / 1 violation (prints VIOLATION line) / 2 harness error.
"""
from __future__ import annotations

import hashlib
import importlib
import json
import os
import shutil
import subprocess
import sys
import tempfile
import time
import traceback
from dataclasses import dataclass, field

ROOT = os.path.dirname(os.path.dirname(os.path.abspath(__file__)))
N_WORKERS = int(os.environ.get("VERIF_WORKERS", "16"))


# ------------------------------------------------------------------- outcomes
@dataclass
class Outcome:
    status: str = "ok"  # ok | skip | violation
    reason: str = ""  # skip reason or violation message
    bucket: str = ""  # root-cause bucket for violations (matched against known findings)
    nontrivial: bool = False
    classes: list = field(default_factory=list)
    digest: str = ""
    info: dict = field(default_factory=dict)  # extra counters (summed) e.g. rows checked
    sample: object = None  # compact rendering of the case for the evidence file


class LcmCrash(Exception):
    """An exception raised inside lcm while the harness called it."""

    def __init__(self, exc, where):
        super().__init__(f"{type(exc).__name__}: {str(exc)[:300]} @ {where}")
        self.exc = exc
        self.where = where
        self.exc_type = type(exc).__name__


def call_lcm(fn, *args, **kwargs):
    """Call into lcm; exceptions become LcmCrash carrying the innermost lcm frame."""
    try:
        return fn(*args, **kwargs)
    except Exception as e:  # noqa: BLE001
        tb = traceback.extract_tb(e.__traceback__)
        where = "?"
        for fr in tb:
            if "/lcm/" in fr.filename and "/vlib/" not in fr.filename:
                where = f"{os.path.basename(fr.filename)}:{fr.name}"
        raise LcmCrash(e, where) from e


def case_digest(case):
    return hashlib.sha256(json.dumps(case, sort_keys=True, default=str).encode()).hexdigest()[:16]


# ------------------------------------------------------------- known findings
def load_known():
    p = os.path.join(ROOT, "known_findings.json")
    if not os.path.exists(p):
        return []
    with open(p) as f:
        data = json.load(f)
    return [e for e in data.get("findings", []) if e.get("status") == "known"]


def match_known(known, prop_id, bucket):
    for e in known:
        if e["property"] == prop_id and (e.get("bucket") == bucket or bucket in e.get("buckets", [])):
            return e
    return None


# ---------------------------------------------------------------------- stats
class Stats:
    def __init__(self):
        self.evaluations = 0
        self.ok = 0
        self.skips = {}
        self.classes = {}
        self.info = {}
        self.nontrivial = set()
        self.samples = []
        self.known = {}
        self.violation = None  # (case, reason, bucket)
        self.harness_error = None
        self.budget_skipped = 0
        self.n_violating_calls = 0

    def add(self, out: Outcome):
        self.evaluations += 1
        for c in out.classes:
            self.classes[c] = self.classes.get(c, 0) + 1
        for k, v in out.info.items():
            self.info[k] = self.info.get(k, 0) + v
        if out.status == "skip":
            self.skips[out.reason] = self.skips.get(out.reason, 0) + 1
        elif out.status == "ok":
            self.ok += 1
        if out.status != "skip" and out.nontrivial and out.digest:
            self.nontrivial.add(out.digest)
            if len(self.samples) < 3 and out.sample is not None:
                self.samples.append(out.sample)
        elif out.status == "ok" and len(self.samples) < 1 and out.sample is not None:
            self.samples.append(out.sample)

    def to_json(self):
        return {
            "evaluations": self.evaluations,
            "ok": self.ok,
            "skips": self.skips,
            "classes": self.classes,
            "info": self.info,
            "nontrivial": sorted(self.nontrivial),
            "samples": self.samples,
            "known": self.known,
            "violation": self.violation,
            "harness_error": self.harness_error,
            "budget_skipped": self.budget_skipped,
        }


def load_prop(prop_id):
    return importlib.import_module(f"vlib.props.{prop_id.lower()}")


def safe_check(mod, case):
    """Run the property's check; an exception escaping lcm is a violation with a bucket, an
    exception in the harness itself propagates (-> exit 2)."""
    try:
        return mod.check(case)
    except LcmCrash as e:
        return Outcome(
            status="violation",
            reason=f"lcm raised {e}",
            bucket=f"crash:{e.exc_type}:{e.where}",
            digest=case_digest(case),
        )


# --------------------------------------------------------------------- worker
def worker_main(argv):
    prop_id, tier, seed, k, K, n, outfile = argv
    seed, k, K, n = int(seed), int(k), int(K), int(n)
    from . import compat

    compat.setup()
    import hypothesis
    from hypothesis import HealthCheck, Phase, given, settings

    os.environ["VERIF_TIER_EFFECTIVE"] = tier
    mod = load_prop(prop_id)
    known = load_known()
    stats = Stats()
    t0 = time.time()
    cap = getattr(mod, "TIME_CAP", {"quick": 900, "thorough": 6 * 3600})[tier]
    state = {"n": 0}

    shrink_budget = getattr(mod, "SHRINK_BUDGET", {"quick": 45, "thorough": 900})[tier]

    def handle(case):
        if stats.harness_error is not None:
            return
        if stats.violation is not None and time.time() - state.get("t_violation", t0) > shrink_budget:
            # bounded shrinking: after the budget every further attempt "passes" instantly, so the
            # shrinker stops; the smallest failing case seen so far is kept as the replay
            return
        if time.time() - t0 > cap:
            stats.budget_skipped += 1
            return
        state["n"] += 1
        if state["n"] % getattr(mod, "CLEAR_CACHES_EVERY", 20) == 0:
            try:
                import jax

                jax.clear_caches()
            except Exception:  # noqa: BLE001
                pass
        try:
            out = safe_check(mod, case)
        except AssertionError:
            raise
        except BaseException as e:  # harness error
            if isinstance(e, (KeyboardInterrupt, SystemExit)):
                raise
            if type(e).__name__ in ("UnsatisfiedAssumption", "StopTest", "Frozen"):
                raise
            stats.harness_error = traceback.format_exc()[-4000:]
            stats.harness_case = case
            return
        stats.add(out)
        if out.status == "skip" and state.get("under_hyp") and getattr(mod, "REJECT_SKIPS", True):
            # steer generation: skipped (unsupported / knife-edge) cases do not use up budget
            state["rejects"] = state.get("rejects", 0) + 1
            if state["rejects"] <= 3 * max(n, 10):
                hypothesis.reject()
        if out.status == "violation":
            kf = match_known(known, mod.ID, out.bucket)
            if kf is not None:
                stats.known[kf["id"]] = stats.known.get(kf["id"], 0) + 1
                return
            if stats.violation is None:
                state["t_violation"] = time.time()
            stats.violation = {"case": case, "reason": out.reason, "bucket": out.bucket}
            stats.n_violating_calls += 1
            raise AssertionError(out.reason)

    if k == 0:
        # replay tier + fixed cases, plain execution without hypothesis
        rdir = os.path.join(ROOT, "replays", "regress", mod.ID)
        files = sorted(os.listdir(rdir)) if os.path.isdir(rdir) else []
        cases = []
        for fn in files:
            if fn.endswith(".json"):
                with open(os.path.join(rdir, fn)) as f:
                    cases.append(json.load(f)["case"])
        if hasattr(mod, "fixed_cases"):
            cases += list(mod.fixed_cases(tier))
        for case in cases:
            try:
                handle(case)
            except AssertionError:
                break
        stats.info["replayed_regress_cases"] = len(cases)

    if stats.violation is None and stats.harness_error is None and n > 0:
        if hasattr(mod, "run_custom"):
            try:
                mod.run_custom(tier, seed, k, K, n, stats, handle)
            except AssertionError:
                pass
            except Exception:  # noqa: BLE001
                if stats.violation is None:
                    stats.harness_error = traceback.format_exc()[-4000:]
        else:
            phases = (Phase.generate, Phase.shrink)
            sett = settings(
                max_examples=n,
                database=None,
                deadline=None,
                derandomize=False,
                report_multiple_bugs=False,
                suppress_health_check=list(HealthCheck),
                phases=phases,
                print_blob=False,
            )

            @hypothesis.seed(seed * 1000 + k)
            @sett
            @given(mod.strategy(tier))
            def test(case):
                state["under_hyp"] = True
                handle(case)

            try:
                test()
            except AssertionError:
                pass
            except Exception:  # noqa: BLE001
                if stats.violation is None and stats.harness_error is None:
                    stats.harness_error = traceback.format_exc()[-4000:]
    res = stats.to_json()
    res["wall_s"] = time.time() - t0
    with open(outfile, "w") as f:
        json.dump(res, f, default=str)
    return 0


# --------------------------------------------------------------------- parent
def write_replay(prop_id, viol, tier, seed):
    d = os.path.join(ROOT, "replays", "found", prop_id)
    os.makedirs(d, exist_ok=True)
    h = case_digest(viol["case"])
    path = os.path.join(d, f"{h}.json")
    with open(path, "w") as f:
        json.dump(
            {
                "property": prop_id,
                "reason": viol["reason"],
                "bucket": viol["bucket"],
                "tier": tier,
                "seed": seed,
                "case": viol["case"],
            },
            f,
            indent=1,
            default=str,
        )
    return os.path.relpath(path, ROOT)


def run_check(prop_id, tier, seed, n_override=None):
    t0 = time.time()
    sys.path.insert(0, ROOT)
    # The parent must not import jax/lcm: property modules import them lazily.
    from . import compat

    mod_budget = _peek(prop_id)
    n_total = n_override if n_override is not None else mod_budget["BUDGET"][tier]
    K = min(mod_budget.get("WORKERS", N_WORKERS), max(1, n_total)) if n_total > 0 else 1
    per = [n_total // K + (1 if i < n_total % K else 0) for i in range(K)]
    scratch = tempfile.mkdtemp(prefix=f"lcm-verif-{os.getpid()}-")
    env = compat.env_for_workers()
    env["PYTHONPATH"] = ROOT + os.pathsep + env.get("PYTHONPATH", "")
    procs = []
    try:
        for k in range(K):
            out = os.path.join(scratch, f"w{k}.json")
            log = open(os.path.join(scratch, f"w{k}.log"), "w")
            p = subprocess.Popen(
                [sys.executable, "-m", "vlib.worker", prop_id, tier, str(seed),
                 str(k), str(K), str(per[k]), out],
                cwd=ROOT, env=env, stdout=log, stderr=subprocess.STDOUT,
            )
            procs.append((p, out, log))
        results = []
        harness_errors = []
        for k, (p, out, log) in enumerate(procs):
            rc = p.wait()
            log.close()
            if rc != 0 or not os.path.exists(out):
                with open(os.path.join(scratch, f"w{k}.log")) as f:
                    harness_errors.append(f"worker {k} rc={rc}: {f.read()[-3000:]}")
                continue
            with open(out) as f:
                results.append(json.load(f))
    finally:
        for p, _, _ in procs:
            if p.poll() is None:
                p.kill()
    shutil.rmtree(scratch, ignore_errors=True)

    for r in results:
        if r.get("harness_error"):
            harness_errors.append(r["harness_error"])
    agg = {
        "evaluations": sum(r["evaluations"] for r in results),
        "ok": sum(r["ok"] for r in results),
        "budget_skipped": sum(r["budget_skipped"] for r in results),
    }
    nontrivial = set()
    skips, classes, info, known_hits = {}, {}, {}, {}
    samples = []
    for r in results:
        nontrivial |= set(r["nontrivial"])
        for src, dst in ((r["skips"], skips), (r["classes"], classes), (r["info"], info), (r["known"], known_hits)):
            for a, b in src.items():
                dst[a] = dst.get(a, 0) + b
        for s in r["samples"]:
            if len(samples) < 5:
                samples.append(s)
    violations = [r["violation"] for r in results if r.get("violation")]
    known = load_known()
    for kid, cnt in sorted(known_hits.items()):
        e = next(x for x in known if x["id"] == kid)
        print(f"KNOWN-FINDING: property={prop_id} {e['what']} [{kid}; {cnt} generated case(s) hit it]")
    for e in known:
        # findings identified by a fixed input are reported by the property's fixed cases;
        # listed findings that no case hit this run are still announced (they are facts about
        # the tree, the file is never modified at run time)
        if e["property"] == prop_id and e["id"] not in known_hits:
            print(f"KNOWN-FINDING: property={prop_id} {e['what']} [{e['id']}; not exercised in this run]")
    wall = time.time() - t0
    meta = mod_budget
    coverage = {
        "evaluations": agg["evaluations"],
        "distinct_nontrivial": len(nontrivial),
        "rule": meta["RULE"],
        "samples": samples,
        "passed": agg["ok"],
        "skipped_by_reason": skips,
        "class_histogram": classes,
        "counters": info,
        "known_finding_hits": known_hits,
        "not_executed_time_cap": agg["budget_skipped"],
        "workers": K,
        "requested_cases": n_total,
        "exhaustive": False,
    }
    ev = {
        "property_id": prop_id,
        "tier": tier,
        "seed": int(seed),
        "level": "exploration",
        "coverage": coverage,
        "assumptions": meta["ASSUMPTIONS"],
        "wall_s": round(wall, 2),
        "violations": len(violations),
    }
    if harness_errors:
        print(f"HARNESS-ERROR property={prop_id}")
        for h in harness_errors[:3]:
            print(h)
        return 2
    if not os.environ.get("VERIF_NO_EVIDENCE"):
        os.makedirs(os.path.join(ROOT, "evidence"), exist_ok=True)
        with open(os.path.join(ROOT, "evidence", f"{prop_id}.json"), "w") as f:
            json.dump(ev, f, indent=1, default=str)
    if violations:
        seen = set()
        # one replay per root-cause bucket: the smallest failing case (shrunk ones first)
        violations.sort(key=lambda v: len(json.dumps(v["case"], default=str)))
        for v in violations:
            if v["bucket"] in seen:
                continue
            seen.add(v["bucket"])
            path = write_replay(prop_id, v, tier, seed)
            print(f"VIOLATION property={prop_id} replay={path}")
            print(f"  bucket={v['bucket']} reason={v['reason'][:500]}")
        return 1
    print(
        f"OK property={prop_id} tier={tier} seed={seed} evaluations={agg['evaluations']} "
        f"nontrivial={len(nontrivial)} skipped={sum(skips.values())} wall={wall:.1f}s"
    )
    return 0


def _peek(prop_id):
    """Read the static metadata of a property module without importing jax in the parent
    (property modules keep heavy imports inside functions)."""
    mod = load_prop(prop_id)
    return {
        "BUDGET": mod.BUDGET,
        "RULE": mod.RULE,
        "ASSUMPTIONS": mod.ASSUMPTIONS,
        "WORKERS": getattr(mod, "WORKERS", N_WORKERS),
    }


def run_replay(prop_id, path):
    from . import compat

    compat.setup()
    mod = load_prop(prop_id)
    with open(path) as f:
        data = json.load(f)
    out = safe_check(mod, data["case"])
    if out.status == "violation":
        kf = match_known(load_known(), prop_id, out.bucket)
        if kf is not None:
            print(f"KNOWN-FINDING: property={prop_id} {kf['what']} [{kf['id']}]")
            return 0
        print(f"VIOLATION property={prop_id} replay={path}")
        print(f"  bucket={out.bucket} reason={out.reason[:800]}")
        return 1
    print(f"replay {path}: status={out.status} {out.reason}")
    return 0


"""C03 - simulated states follow the model's law of motion."""
from __future__ import annotations

import numpy as np
from hypothesis import strategies as st

from .. import simcheck
from ..runner import Outcome, case_digest
from ..strategies import Profile, materialise_agents, model_specs, raw_agents
from .c01 import model_classes, prepare, sample_of

ID = "C03"
TITLE = "Simulated states follow the model's law of motion"
BUDGET = {"quick": 160, "thorough": 2500}
RULE = (
    "Cases = (supported model with T>=2, incl. stochastic transitions whose rows contain zeros at different "
    "positions, 1-8 agents on/off grid, seed), simulated with solve_and_simulate. Oracle: period-0 state columns "
    "equal the supplied initial states exactly; for every consecutive pair (t,i)->(t+1,i) each deterministic "
    "state equals the NumPy evaluation of its transition function at the row's states, choices, period and the "
    "function's own params (discrete exact, continuous 1e-12 relative); each stochastic state is a grid label "
    "whose probability in the row selected by the dependencies IN SIGNATURE ORDER is > 0. Non-trivial pair: a "
    "deterministic next value differs from the current one or depends on a choice, or the selected stochastic "
    "row has a zero entry. In about 1 case in 6 a continuous state <s>_dup is added whose transition is the SAME Python callable as next_<s>, registered a second time with its own parameter block. distinct_nontrivial = distinct cases with >=1 such pair."
)
ASSUMPTIONS = [
    "float64, CPU; NumPy DAG evaluator of vlib/refmodel.py trusted",
    "the reported choices are taken from the frame (their optimality is C02's subject)",
]
TECHNIQUE = "property-based testing with a reference-model oracle: row-by-row recomputation of the transition functions for Hypothesis-generated models, agents and seeds"
LEVEL_TEXT = (
    "Exploration over generated models/agents/seeds; every consecutive row pair is re-derived. Catches wrong "
    "argument wiring in next_state (prefix stripping, period offset, params routing, dependency order of shocks)."
)

PROFILE = Profile(name="lom", min_periods=2, max_periods=4, p_stoch=0.5, p_filter=0.5, max_points=20_000,
                  force_sparse_and_dense_choice=0.15)


@st.composite
def cases(draw):
    spec = draw(model_specs(PROFILE))
    return {
        "spec": spec.to_json(),
        "agents": draw(raw_agents(1, 8)),
        "seed": draw(st.integers(0, 2**31 - 1)),
        # a generic law of motion (one Python callable) registered for two states with different
        # parameter blocks
        "shared_callable": draw(st.integers(0, 999)) >= 700,
    }


def strategy(tier):
    return cases()


def check(case):
    shared = False
    if case.get("shared_callable"):
        from ..ir import Spec, share_callable

        sp2 = share_callable(Spec.from_json(case["spec"]))
        if sp2 is not None:
            case = {**case, "spec": sp2.to_json()}
            shared = True
    spec, ref, skip = prepare(case)
    dg = case_digest(case)
    if skip:
        return Outcome(status="skip", reason=skip, digest=dg)
    if not all(np.isfinite(ref.to_lcm_layout(v, t)).all() for t, v in enumerate(ref.V)):
        return Outcome(status="skip", reason="nonfinite_reference", digest=dg)
    init = materialise_agents(spec, ref, case["agents"])
    n = len(case["agents"])
    fns = simcheck.get_functions(spec, targets=("solve_and_simulate",))
    df = simcheck.simulate(fns, spec, init, case["seed"])
    msgs, cnt = simcheck.check_law_of_motion(spec, ref, df, init, n)
    out = Outcome(digest=dg, classes=model_classes(spec, ref) + (["one_callable_for_two_transitions"] if shared else []), info=cnt)
    out.nontrivial = cnt["pairs_nontrivial"] > 0
    if msgs:
        out.status = "violation"
        out.reason = "; ".join(msgs[:3])
        out.bucket = "law_of_motion:" + ("initial" if "period-0" in msgs[0] else ("stochastic" if "stochastic" in msgs[0] or "label" in msgs[0] else "deterministic"))
        return out
    s = sample_of(spec)
    s["initial_states"] = {k: v.tolist() for k, v in init.items()}
    s["seed"] = case["seed"]
    out.sample = s
    return out

"""C06 - solve and simulate agree with each other."""
from __future__ import annotations

import numpy as np
from hypothesis import strategies as st

from .. import simcheck
from ..ir import to_lcm_grid
from ..runner import Outcome, call_lcm, case_digest
from ..strategies import Profile, materialise_agents, model_specs, raw_agents
from .c01 import model_classes, prepare, sample_of

ID = "C06"
TITLE = "Solve and simulate agree with each other"
BUDGET = {"quick": 150, "thorough": 2500}
RULE = (
    "Cases = (supported model - fully discrete with weight 1/2 -, 1-8 agents placed exactly on grid nodes taken "
    "bit-for-bit from the model's own materialised grids, seed). (1) For every simulated row whose continuous "
    "states are all grid nodes (period 0 by construction, later periods when the transition lands on a node, "
    "1e-12) the value column must equal the entry of that period's solved array at that state, located through the "
    "documented layout (1e-9). (2) solve_and_simulate(params, initial_states, seed) must return the same frame as "
    "simulate(params, vf_arr_list=solve(params), initial_states, seed) (index/columns identical, discrete exact, "
    "floats 1e-12; a differing choice is accepted only if the oracle of C02 finds both tolerance-optimal). "
    "One fixed case has 2**20+1500 grid states per period (the generated ones stay below ~2e4). Non-trivial: an on-grid row in a period >=1, in a model with T>=2; distinct by case digest."
)
ASSUMPTIONS = [
    "float64, CPU",
    "'on the grid' is defined by the library's materialised grid (its exactness is C16's subject)",
    "documented layout map (vlib/refmodel.py) trusted",
]
TECHNIQUE = "property-based testing: differential between two entry points (solve_and_simulate vs solve->simulate) and a round-trip between simulated values and solved arrays over Hypothesis-generated models"
LEVEL_TEXT = "Exploration over generated models/agents; each case compares two API paths and every on-grid row with the solved arrays."

PROFILE = Profile(name="agree", fully_discrete=0.5, max_periods=4, p_filter=0.6, max_points=20_000,
                  p_period_only_in_constraints=0.3,
                  force_sparse_and_dense_choice=0.15)


@st.composite
def cases(draw):
    spec = draw(model_specs(PROFILE))
    return {
        "spec": spec.to_json(),
        "agents": draw(raw_agents(1, 8)),
        "seed": draw(st.integers(0, 2**31 - 1)),
    }


def strategy(tier):
    return cases()


def fixed_cases(tier):
    """One LARGE state space (more than 2**20 grid states per period): the generated models stay
    below ~2e4 states, so anything that depends on the size of the value arrays needs this case."""
    from ..ir import Spec

    n = 2**20 + 1500
    spec = Spec(
        n_periods=2,
        states={"w_x": ("lin", 1.0, 50.0, n)},
        choices={"d_w": ("disc", 2), "c_x": ("lin", 0.5, 2.0, 3)},
        functions={
            "utility": {"args": ["c_x", "d_w", "w_x"], "body": "xp.log(c_x) - 0.3 * d_w + 0.1 * xp.sqrt(w_x)"},
            "next_w_x": {"args": ["w_x", "c_x", "d_w"], "body": "1.01 * w_x - c_x + 1.5 * d_w"},
            "budget_constraint": {"args": ["w_x", "c_x"], "body": "c_x <= w_x", "margin": "w_x - c_x"},
        },
        consts={},
        params={"beta": 0.93, "utility": {}, "next_w_x": {}, "budget_constraint": {}},
    )
    agents = [{"combo": 0, "disc": [0, 0, 0, 0], "node": [k, 0, 0], "mode": ["on"] * 3, "frac": [1, 1, 1]}
              for k in (0, 3, 7, 11)]
    return [{"spec": spec.to_json(), "agents": agents, "seed": 5}]


def check(case):
    spec, ref, skip = prepare(case)
    dg = case_digest(case)
    if skip:
        return Outcome(status="skip", reason=skip, digest=dg)
    if not all(np.isfinite(ref.to_lcm_layout(v, t)).all() for t, v in enumerate(ref.V)):
        return Outcome(status="skip", reason="nonfinite_reference", digest=dg)
    lib_nodes = {
        s: np.asarray(to_lcm_grid(g).to_jax(), dtype=float)
        for s, g in spec.states.items() if g[0] != "disc"
    }
    init = materialise_agents(spec, ref, case["agents"], on_grid_only=True, nodes_override=lib_nodes)
    N, T = len(case["agents"]), spec.n_periods
    fns = simcheck.get_functions(spec)
    params = simcheck.to_lcm_params(spec)
    sol = call_lcm(fns["solve"], params)
    df_a = simcheck.simulate(fns, spec, init, case["seed"])
    df_b = simcheck.simulate(fns, spec, init, case["seed"], vf_arr_list=sol)
    classes = model_classes(spec, ref)
    if not ref.cont_states:
        classes.append("fully_discrete_states")
    msgs = []
    cnt = {"rows": 0, "rows_on_grid": 0, "rows_on_grid_later_period": 0, "ties": 0}
    # (2) the two entry points agree
    diff = simcheck.frames_equal(df_a, df_b)
    bucket = "agree:entry_points"
    if diff:
        if sorted(df_a.columns) != sorted(df_b.columns) or len(df_a) != len(df_b):
            msgs += [f"solve_and_simulate != solve->simulate: {d}" for d in diff[:2]]
        else:
            vfull = simcheck.vfull_list(ref, [np.asarray(a) for a in sol])
            m, ties = simcheck.explain_difference(spec, ref, df_a, df_b, vfull, [(i, i) for i in range(N)])
            cnt["ties"] += ties
            msgs += [f"solve_and_simulate != solve->simulate: {x}" for x in m[:2]]
    # (1) on-grid rows equal the solved array entries
    if not msgs:
        bucket = "agree:value_vs_solution"
        vfull = simcheck.vfull_list(ref, [np.asarray(a) for a in sol])
        for t in range(T):
            for i in range(N):
                cnt["rows"] += 1
                row = df_a.loc[(t, i)]
                bad = simcheck.invalid_labels(spec, row, list(spec.states))
                if bad:
                    msgs.append(f"(t={t}, agent={i}): state " + "; ".join(bad))
                    continue
                idx = []
                on = True
                for s in ref.order:
                    g = spec.states[s]
                    v = float(row[s])
                    if g[0] == "disc":
                        idx.append(int(round(v)))
                    else:
                        nodes = lib_nodes[s]
                        j = int(np.argmin(np.abs(nodes - v)))
                        if abs(nodes[j] - v) > 1e-12 * max(1.0, abs(v)):
                            on = False
                            break
                        idx.append(j)
                if not on or not ref.in_space({s: row[s] for s in spec.states}, t):
                    continue
                cnt["rows_on_grid"] += 1
                cnt["rows_on_grid_later_period"] += int(t >= 1)
                e = float(vfull[t][tuple(idx)])
                g = float(row["value"])
                if not np.isfinite(e):
                    continue
                if not abs(e - g) <= 1e-9 * max(1.0, abs(e)):
                    msgs.append(
                        f"(t={t}, agent={i}) on-grid state {dict(zip(ref.order, idx))}: simulated value {g!r} != solved entry {e!r}"
                    )
    out = Outcome(digest=dg, classes=classes, info=cnt)
    out.nontrivial = T >= 2 and cnt["rows_on_grid_later_period"] > 0
    if msgs:
        out.status = "violation"
        out.reason = "; ".join(msgs[:3])
        out.bucket = bucket
        return out
    s = sample_of(spec)
    s["initial_states"] = {k: v.tolist() for k, v in init.items()}
    out.sample = s
    return out

"""C11 - the solution obeys the algebraic laws of finite-horizon dynamic programming."""
from __future__ import annotations

import re

import numpy as np
from hypothesis import strategies as st

from .. import simcheck
from ..ir import Spec
from ..runner import Outcome, case_digest
from ..strategies import Profile, materialise_agents, model_specs, raw_agents
from .c01 import lcm_solve, model_classes, prepare, sample_of

ID = "C11"
TITLE = "The solution obeys the algebraic laws of finite-horizon dynamic programming"
BUDGET = {"quick": 200, "thorough": 3000}
RULE = (
    "Cases = (supported model - larger than the C01 bounds: grids up to 12 nodes, T up to 5 -, one law). (a) affine: "
    "utility' = a*utility + b with a in [0.1,10], b in [-5,5] (half of the cases: a wrapper function appended to the specification; the other half: a signature-preserving functools.wraps decorator around the user's utility function): "
    "V'_t = a*V_t + b*sum_{k=0}^{T-1-t} beta^k (1e-9 relative to max(1,|V'|); a sub-stream uses models in which last-period states have no feasible choice, so that values of -inf propagate: the pattern of non-finite entries must agree). (b) beta=0: V_t equals the solution of "
    "the ONE-PERIOD model obtained by substituting the literal t for the period in every non-transition function, "
    "for every t. (c) models in which no function mentions the period, horizons T1 < T2: V^{T2}_{T2-k} = "
    "V^{T1}_{T1-k} for k=1..T1 (1e-9). (d) a stochastic state with one-hot transition rows vs the same model with the "
    "deterministic table transition argmax(row): equal solutions (1e-9) and equal simulated frames. All comparisons "
    "are between runs of the real code. Non-trivial: (a) b != 0 and T>=3; (b) T>=2 and some function depends on the "
    "period; (c) T2 >= T1+2; (d) rows select different labels for different dependency values. Distinct by case digest."
)
ASSUMPTIONS = ["float64, CPU", "supportedness of the base model decided by the NumPy reference; the laws themselves need no reference"]
TECHNIQUE = "metamorphic property-based testing: affine-utility, beta=0, horizon-shift and degenerate-shock laws between runs of the real solver on generated models"
LEVEL_TEXT = "Exploration over generated models and law parameters; 2-6 lcm solves per case."

BIG = dict(max_cont_state_nodes=12, max_cont_choice_nodes=10, max_points=150_000)
PROFILE = Profile(name="laws", min_periods=1, max_periods=5, p_filter=0.5, **BIG)
PROFILE_NOPERIOD = Profile(name="laws_noperiod", min_periods=1, max_periods=3, allow_period=False, p_filter=0.5,
                           filter_modes=("keep_all", "free"), **BIG)
PROFILE_INFEASIBLE = Profile(name="laws_infeasible", min_periods=2, max_periods=3, free_constraints=0.9,
                             p_table_constraint=1.0, free_p_true=0.35, p_filter=0.3, max_disc_choices=2,
                             max_cont_states=1, max_cont_choices=1, max_points=40_000, p_infeasible_last=0.7,
                             min_disc_states=1)
PROFILE_STOCH = Profile(name="laws_stoch", min_periods=2, max_periods=4, p_stoch=0.9, max_disc_states=3, p_filter=0.4,
                        max_points=40_000)


@st.composite
def cases(draw):
    law = draw(st.sampled_from(["affine", "affine_infeasible", "beta0", "horizon", "degenerate"]))
    prof = {"affine": PROFILE, "affine_infeasible": PROFILE_INFEASIBLE, "beta0": PROFILE, "horizon": PROFILE_NOPERIOD,
            "degenerate": PROFILE_STOCH}[law]
    infeasible_ok = law == "affine_infeasible"
    law = "affine" if infeasible_ok else law
    spec = draw(model_specs(prof))
    c = {"spec": spec.to_json(), "law": law, "infeasible_ok": infeasible_ok, "via_decorator": draw(st.booleans()),
         "a": draw(st.integers(1, 100)) / 10, "b": draw(st.integers(-50, 50)) / 10,
         "extra_T": draw(st.sampled_from([1, 2, 3, 3, 8, 10])),
         "beta_override": draw(st.sampled_from([None, None, None, 1.0, 1.25, 1.6, 0.05]))}
    if law == "degenerate":
        c["agents"] = draw(raw_agents(2, 6))
        c["seed"] = draw(st.integers(0, 2**31 - 1))
    return c


def strategy(tier):
    return cases()


def close(A, B, tol):
    fin = np.isfinite(A) & np.isfinite(B)
    same_inf = np.array_equal(np.isfinite(A), np.isfinite(B))
    return same_inf and bool((np.abs(A[fin] - B[fin]) <= tol * np.maximum(1.0, np.abs(B[fin]))).all())


def affine_spec(spec, a, b):
    new = spec.copy()
    funcs = {}
    for n, f in spec.functions.items():
        if n == "utility":
            funcs["uinner"] = dict(f)
            funcs["utility"] = {"args": ["uinner"], "body": f"{a!r} * uinner + {b!r}"}
        else:
            funcs[n] = dict(f)
    new.functions = funcs
    new.params = {("uinner" if k == "utility" else k): v for k, v in spec.params.items()}
    new.params["utility"] = {}
    return new


def one_period_spec(spec, t):
    new = spec.copy()
    new.n_periods = 1
    for n, f in new.functions.items():
        if n.startswith("next_"):
            continue
        if "_period" in f["args"]:
            f["args"] = [x for x in f["args"] if x != "_period"]
            f["body"] = re.sub(r"\b_period\b", str(t), f["body"])
            if f.get("margin"):
                f["margin"] = re.sub(r"\b_period\b", str(t), f["margin"])
    for s in new.stochastic_states():
        deps = new.functions[f"next_{s}"]["args"]
        if "_period" in deps:
            ax = deps.index("_period")
            P = np.asarray(new.params["shocks"][s])
            new.params["shocks"][s] = np.take(P, [t], axis=ax)
    return new


def horizon_spec(spec, T):
    new = spec.copy()
    new.n_periods = T
    return new


def degenerate_specs(spec):
    """(one-hot stochastic version, deterministic version)"""
    sto, det = spec.copy(), spec.copy()
    varied = False
    for i, s in enumerate(spec.stochastic_states()):
        P = np.asarray(spec.params["shocks"][s], dtype=float)
        lab = np.argmax(P, axis=-1)
        onehot = np.eye(P.shape[-1])[lab]
        sto.params["shocks"][s] = onehot
        deps = spec.functions[f"next_{s}"]["args"]
        name = f"TABDET{i}"
        det.consts[name] = lab.astype(int)
        det.functions[f"next_{s}"] = {"args": list(deps), "body": f"{name}[{', '.join(deps)}]"}
        det.params["shocks"].pop(s)
        varied = varied or len(np.unique(lab)) > 1
    if not det.params["shocks"]:
        det.params.pop("shocks")
    return sto, det, varied


def check(case):
    law = case["law"]
    dg = case_digest(case)
    spec = Spec.from_json(case["spec"])
    if law == "beta0":
        spec.params["beta"] = 0.0
    elif case.get("beta_override") is not None:
        spec.params["beta"] = float(case["beta_override"])
    if law == "degenerate":
        if not spec.stochastic_states():
            return Outcome(status="skip", reason="no_stochastic_state", digest=dg)
        sto, det, varied = degenerate_specs(spec)
        spec = sto
    spec, ref, skip = prepare({"spec": spec.to_json()})
    if skip:
        return Outcome(status="skip", reason=skip, digest=dg)
    nonfinite = not all(np.isfinite(ref.to_lcm_layout(v, t)).all() for t, v in enumerate(ref.V))
    if nonfinite and not case.get("infeasible_ok"):
        return Outcome(status="skip", reason="nonfinite_reference", digest=dg)
    T = spec.n_periods
    beta = float(spec.params["beta"])
    msgs, nt = [], False
    cl = [f"law_{law}"] + (["beta_ge_1"] if beta >= 1 else []) + model_classes(spec, ref) + (["states_of_value_minus_inf"] if nonfinite else [])
    base = lcm_solve(spec)
    if law == "affine":
        a, b = case["a"], case["b"]
        if case.get("via_decorator"):
            # a*utility+b written as a signature-preserving decorator (functools.wraps) around the
            # user's utility function
            import functools

            from lcm.entry_point import get_lcm_function

            from ..ir import to_lcm_model, to_lcm_params
            from ..runner import call_lcm

            model = to_lcm_model(spec)
            inner = model.functions["utility"]

            @functools.wraps(inner)
            def wrapped_utility(*args, **kwargs):
                return a * inner(*args, **kwargs) + b

            model = model.replace(functions={**model.functions, "utility": wrapped_utility})
            solve_w, _ = call_lcm(get_lcm_function, model, targets="solve", debug_mode=False)
            sol = [np.asarray(x) for x in call_lcm(solve_w, to_lcm_params(spec))]
            cl.append("affine_via_decorator")
        else:
            sol = lcm_solve(affine_spec(spec, a, b))
        for t in range(T):
            exp = a * base[t] + b * sum(beta**k for k in range(T - t))
            if sol[t].shape != exp.shape or not close(sol[t], exp, 1e-9):
                msgs.append(f"t={t}: V(a*u+b) != a*V + b*sum beta^k (a={a}, b={b}); e.g. {sol[t].reshape(-1)[:3].tolist()} vs {exp.reshape(-1)[:3].tolist()}")
        nt = b != 0 and T >= 3
    elif law == "beta0":
        for t in range(T):
            one = lcm_solve(one_period_spec(spec, t))
            if len(one) != 1 or one[0].shape != base[t].shape or not close(base[t], one[0], 1e-9):
                msgs.append(f"t={t}: with beta=0 the value differs from the one-period problem of period {t}: {base[t].reshape(-1)[:3].tolist()} vs {one[0].reshape(-1)[:3].tolist()}")
        nt = T >= 2 and spec.mentions_period()
    elif law == "horizon":
        if spec.mentions_period():
            return Outcome(status="skip", reason="mentions_period", digest=dg)
        T2 = T + case["extra_T"]
        long = lcm_solve(horizon_spec(spec, T2))
        for k in range(1, T + 1):
            A, B = long[T2 - k], base[T - k]
            if A.shape != B.shape or not close(A, B, 1e-9):
                msgs.append(f"{k} periods before the end: horizon {T2} gives {A.reshape(-1)[:3].tolist()}, horizon {T} gives {B.reshape(-1)[:3].tolist()}")
        nt = T2 >= T + 2
    else:
        spec_det, ref_det, skip_det = prepare({"spec": det.to_json()})
        if skip_det:
            return Outcome(status="skip", reason="det_" + skip_det, digest=dg)
        sol_det = lcm_solve(spec_det)
        for t in range(T):
            if base[t].shape != sol_det[t].shape or not close(base[t], sol_det[t], 1e-9):
                msgs.append(f"t={t}: one-hot stochastic transition and deterministic transition give different values")
        if not msgs:
            init = materialise_agents(spec, ref, case["agents"])
            fa = simcheck.get_functions(spec, targets=("solve_and_simulate",))
            fb = simcheck.get_functions(spec_det, targets=("solve_and_simulate",))
            dfa = simcheck.simulate(fa, spec, init, case["seed"])
            dfb = simcheck.simulate(fb, spec_det, init, case["seed"])
            diff = simcheck.frames_equal(dfa, dfb[dfa.columns] if set(dfa.columns) == set(dfb.columns) else dfb, float_tol=1e-9)
            if diff:
                # accept only genuine ties
                vfull = simcheck.vfull_list(ref, base)
                ma, _, _ = simcheck.check_rows(spec, ref, dfa, vfull, len(case["agents"]))
                mb, _, _ = simcheck.check_rows(spec_det, ref_det, dfb, simcheck.vfull_list(ref_det, sol_det), len(case["agents"]))
                if ma or mb:
                    msgs.append(f"simulated frames differ: {diff[:2]}")
                else:
                    cl.append("tie")
        nt = varied
    out = Outcome(digest=dg, classes=cl, nontrivial=nt)
    if msgs:
        out.status, out.reason, out.bucket = "violation", "; ".join(msgs[:2]), f"law:{law}"
        return out
    s = sample_of(spec)
    s["law"] = law
    out.sample = s
    return out

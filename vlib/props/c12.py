"""C12 - specifications are rejected up front or run to completion."""
from __future__ import annotations

import numpy as np
from hypothesis import strategies as st

from ..ir import Spec, compile_funcs, grid_nodes, to_lcm_grid, to_lcm_params
from ..refmodel import Reference
from ..runner import LcmCrash, Outcome, call_lcm, case_digest
from ..strategies import Profile, model_specs
from .c01 import sample_of

ID = "C12"
TITLE = "Specifications are rejected up front or run to completion"
BUDGET = {"quick": 900, "thorough": 14000}
CLEAR_CACHES_EVERY = 30
RULE = (
    "Two generated directions. (reject, 2/3 of the cases, cheap) a valid generated model plus 1-3 violation "
    "operators applied together: n_periods in {0,-1}; no utility; a state without transition function; a name used "
    "as state and choice; a grid replaced by a list/None/JAX array; a function replaced by a non-callable; a "
    "non-string key; the transition of a continuous state marked stochastic (with its own signature, without dependencies, depending only on the period or only on a discrete variable); a stochastic transition depending on a "
    "continuous variable; a filter with a parameter; an invalid grid (start>=stop, n_points<1, non-numeric bound, "
    "non-dataclass categories, codes not 0..n-1). The sequence grid construction -> Model(...) -> "
    "get_lcm_function(...) must raise GridInitializationError, ModelInitilizationError or ValueError, never "
    "another exception and never succeed. (accept) a generated SUPPORTED model plus exactly one widening operator that leaves "
    "C01's supported class (state used only by transitions, single-node continuous state grid, stochastic transition "
    "without dependencies, choice-only filter, filter over a continuous variable, filter through an auxiliary "
    "function, filters excluding every state in a period, a transition into a filter-excluded state, unused choice, single-label discrete state, no choices, "
    "single-node choice grids, none; and one operator that stays inside the class: all functions given as callables carrying a __signature__ attribute, which must be accepted AND run): if grid -> Model -> get_lcm_function all succeed, then solve, "
    "solve_and_simulate and simulate(vf_arr_list=...) with template-conforming parameters and initial states for all "
    "states must return without raising. Non-trivial: reject: >=2 operators; accept: an accepted model with a "
    "widening operator other than 'none'. Distinct by case digest."
)
ASSUMPTIONS = ["float64, CPU", "accepted = no exception from grid construction, Model(...) and get_lcm_function(...)",
               "exceptions are attributed to lcm when the traceback passes through lcm code"]
TECHNIQUE = "property-based testing of the accept-or-reject dichotomy: generated rule violations must be rejected with the documented error types at creation; generated accepted shapes must solve and simulate without an internal error (failures bucketed by widening operator, exception type and innermost lcm frame)"
LEVEL_TEXT = "Exploration over generated combinations of rule violations and over accepted model shapes outside the supported class."

PROFILE = Profile(name="wide", max_periods=3, p_filter=0.5, max_points=8_000, max_cont_state_nodes=4,
                  max_cont_choice_nodes=4, filter_modes=("keep_all", "keep_all", "free"))

REJECT_OPS = ["n_periods", "no_utility", "no_next", "state_choice_overlap", "grid_not_grid", "func_not_callable",
              "non_string_key", "stochastic_continuous_state", "stochastic_continuous_dep", "filter_with_param",
              "invalid_grid"]
WIDEN_OPS = ["none", "functions_with_signature_attribute", "state_only_in_transitions", "single_node_state_grid", "stochastic_no_deps", "choice_only_filter",
             "filter_on_continuous", "filter_through_aux", "empty_space_in_a_period", "transition_into_excluded_state", "unused_choice",
             "single_label_state", "no_choices", "single_node_choice_grids"]


@st.composite
def reject_cases(draw):
    spec = draw(model_specs(PROFILE))
    k = draw(st.sampled_from([1, 2, 2, 3]))
    ops = list(dict.fromkeys([draw(st.sampled_from(REJECT_OPS)) for _ in range(3)]))[:k]
    return {"dir": "reject", "spec": spec.to_json(), "ops": ops,
            "pick": [draw(st.integers(0, 99)) for _ in range(6)]}


@st.composite
def accept_cases(draw):
    spec = draw(model_specs(PROFILE))
    return {"dir": "accept", "spec": spec.to_json(), "op": draw(st.sampled_from(WIDEN_OPS)),
            "pick": [draw(st.integers(0, 99)) for _ in range(6)], "seed": draw(st.integers(0, 10**6)),
            "n_agents": draw(st.integers(1, 4))}


def strategy(tier):
    return st.one_of(reject_cases(), reject_cases(), accept_cases())


class Plan:
    """Mutable recipe for building an lcm Model from a spec (so that operators can break it)."""

    def __init__(self, spec):
        import jax.numpy as jnp

        self.spec = spec
        self.n_periods = spec.n_periods
        self.grid_makers = {}
        for kind, d in (("s", spec.states), ("c", spec.choices)):
            for k, g in d.items():
                self.grid_makers[(kind, k)] = (lambda g=g: to_lcm_grid(g))
        self.functions = compile_funcs(spec, jnp)
        self.stochastic = {n for n, f in spec.functions.items() if f.get("stochastic")}
        self.extra_keys = []  # (which dict, key, value)

    def build(self):
        import lcm
        from lcm import Model

        states, choices = {}, {}
        for (kind, k), mk in self.grid_makers.items():
            (states if kind == "s" else choices)[k] = mk()
        fs = {}
        for n, f in self.functions.items():
            fs[n] = lcm.mark.stochastic(f) if (n in self.stochastic and callable(f)) else f
        for which, k, v in self.extra_keys:
            {"s": states, "c": choices, "f": fs}[which][k] = v
        return Model(n_periods=self.n_periods, functions=fs, choices=choices, states=states)


def apply_reject_op(plan, op, pick):
    import jax.numpy as jnp
    from lcm import LinspaceGrid

    spec = plan.spec
    S, C = list(spec.states), list(spec.choices)
    cont_vars = [v for v in S + C if not spec.is_disc(v)]
    if op == "n_periods":
        plan.n_periods = [0, -1][pick[0] % 2]
    elif op == "no_utility":
        plan.functions.pop("utility", None)
    elif op == "no_next":
        plan.functions.pop(f"next_{S[pick[0] % len(S)]}", None)
    elif op == "state_choice_overlap":
        s = S[pick[0] % len(S)]
        plan.grid_makers[("c", s)] = plan.grid_makers[("s", s)]
    elif op == "grid_not_grid":
        key = list(plan.grid_makers)[pick[0] % len(plan.grid_makers)]
        bad = [lambda: [0.0, 1.0], lambda: None, lambda: jnp.linspace(0, 1, 3)][pick[1] % 3]
        plan.grid_makers[key] = bad
    elif op == "func_not_callable":
        names = list(plan.functions)
        plan.functions[names[pick[0] % len(names)]] = [3.0, None, "utility"][pick[1] % 3]
    elif op == "non_string_key":
        which = "scf"[pick[0] % 3]
        val = (lambda: None) if which == "f" else LinspaceGrid(start=0, stop=1, n_points=2)
        plan.extra_keys.append((which, [1, (1, 2), None][pick[1] % 3], val))
    elif op == "stochastic_continuous_state":
        cs = [s for s in S if not spec.is_disc(s)]
        if not cs:
            plan.grid_makers[("s", "xcont")] = lambda: LinspaceGrid(start=0, stop=1, n_points=3)
            plan.functions["next_xcont"] = lambda xcont: xcont
            cs = ["xcont"]
        w = cs[pick[0] % len(cs)]
        # the stochastic transition of the continuous state comes in several signatures: the
        # model's own transition (depends on the state itself), no dependency, only the period,
        # only a discrete variable
        variant = pick[2] % 4
        dvars = [v for v in S + C if spec.is_disc(v)]
        if variant == 1 or (variant == 3 and not dvars):
            sig = ""
        elif variant == 2:
            sig = "_period"
        elif variant == 3:
            sig = dvars[pick[3] % len(dvars)]
        else:
            sig = None
        if sig is not None:
            ns = {}
            exec(f"def next_{w}({sig}):\n    pass\n", ns)  # noqa: S102
            plan.functions[f"next_{w}"] = ns[f"next_{w}"]
        plan.stochastic.add(f"next_{w}")
    elif op == "stochastic_continuous_dep":
        ds = [s for s in S if spec.is_disc(s)]
        if not ds:
            from ..ir import category_class
            from lcm import DiscreteGrid

            plan.grid_makers[("s", "xdisc")] = lambda: DiscreteGrid(category_class(2))
            ds = ["xdisc"]
        if not cont_vars:
            plan.grid_makers[("c", "xcc")] = lambda: LinspaceGrid(start=0, stop=1, n_points=3)
            cont_vars = ["xcc"]
        s, w = ds[pick[0] % len(ds)], cont_vars[pick[1] % len(cont_vars)]
        ns = {}
        exec(f"def next_{s}({s}, {w}):\n    pass\n", ns)  # noqa: S102
        plan.functions[f"next_{s}"] = ns[f"next_{s}"]
        plan.stochastic.add(f"next_{s}")
    elif op == "filter_with_param":
        s = S[pick[0] % len(S)]
        ns = {}
        exec(f"def extra_filter({s}, cutoff):\n    return {s} <= cutoff\n", ns)  # noqa: S102
        plan.functions["extra_filter"] = ns["extra_filter"]
    elif op == "invalid_grid":
        from dataclasses import make_dataclass

        from lcm import DiscreteGrid, LogspaceGrid

        key = list(plan.grid_makers)[pick[0] % len(plan.grid_makers)]
        bad = [
            lambda: LinspaceGrid(start=1.0, stop=1.0, n_points=3),
            lambda: LinspaceGrid(start=2.0, stop=1.0, n_points=3),
            lambda: LinspaceGrid(start=0.0, stop=1.0, n_points=0),
            lambda: LogspaceGrid(start="a", stop=1.0, n_points=3),
            lambda: DiscreteGrid(type("NotADataclass", (), {"a": 0})),
            lambda: DiscreteGrid(make_dataclass("Bad", [("a", int, 1), ("b", int, 2)])),
            lambda: LinspaceGrid(start=0.0, stop=1.0, n_points=2.5),
            lambda: LogspaceGrid(start=-1.0, stop=1.0, n_points=3),
        ][pick[1] % 8]
        plan.grid_makers[key] = bad


def check_reject(case):
    from lcm.entry_point import get_lcm_function
    from lcm.exceptions import GridInitializationError, ModelInitilizationError

    spec = Spec.from_json(case["spec"])
    plan = Plan(spec)
    for op in case["ops"]:
        apply_reject_op(plan, op, case["pick"])
    allowed = (GridInitializationError, ModelInitilizationError, ValueError)
    stage = "model"
    try:
        model = plan.build()
        stage = "get_lcm_function"
        target = ["solve", "simulate", "solve_and_simulate"][case["pick"][5] % 3]
        get_lcm_function(model, targets=target, debug_mode=False)
    except allowed as e:
        return [], f"rejected_at_{stage}:{type(e).__name__}"
    except Exception as e:  # noqa: BLE001
        return [f"operators {case['ops']}: {stage} raised {type(e).__name__}: {str(e)[:200]} instead of the documented error types"], f"wrong_exception:{type(e).__name__}"
    return [f"operators {case['ops']}: the specification was accepted (no error from Model(...) or get_lcm_function)"], "not_rejected"


# ------------------------------------------------------------------ accept direction
def widen(spec, op, pick):
    """Apply exactly one widening operator on the IR. Returns the new spec (or None)."""
    new = spec.copy()
    S, C = list(spec.states), list(spec.choices)
    ds = [s for s in S if spec.is_disc(s)]
    dc = [c for c in C if spec.is_disc(c)]
    cs = [s for s in S if not spec.is_disc(s)]
    T = spec.n_periods
    if op in ("none", "functions_with_signature_attribute"):
        return new
    if op == "state_only_in_transitions":
        new.states["xaux"] = ("disc", 2)
        new.consts["TABXA"] = np.array([1, 0])
        new.functions["next_xaux"] = {"args": ["xaux"], "body": "TABXA[xaux]"}
        tgt = S[pick[0] % len(S)]
        f = new.functions[f"next_{tgt}"]
        if f.get("stochastic"):
            return None
        f["args"] = f["args"] + ["xaux"]
        f["body"] = f"({f['body']}) + 0 * xaux"
        new.params["next_xaux"] = {}
        return new
    if op == "single_node_state_grid":
        if not cs:
            return None
        w = cs[pick[0] % len(cs)]
        g = spec.states[w]
        new.states[w] = (g[0], g[1], g[2], 1)
        return new
    if op == "stochastic_no_deps":
        cand = [s for s in ds if not spec.functions[f"next_{s}"].get("stochastic")] or ds
        if not cand:
            return None
        s = cand[pick[0] % len(cand)]
        n = spec.size(s)
        new.functions[f"next_{s}"] = {"args": [], "body": "None", "stochastic": True}
        P = np.arange(1, n + 1, dtype=float)
        new.params.setdefault("shocks", {})[s] = P / P.sum()
        new.params[f"next_{s}"] = {}
        return new
    if op == "choice_only_filter":
        if not dc:
            return None
        a = dc[pick[0] % len(dc)]
        m = np.ones(spec.size(a), dtype=bool)
        m[-1] = False
        new.consts["TABXF"] = m
        new.functions["extra_filter"] = {"args": [a], "body": f"TABXF[{a}]"}
        new.params["extra_filter"] = {}
        return new
    if op == "filter_on_continuous":
        cv = [v for v in S + C if not spec.is_disc(v)]
        if not cv:
            return None
        w = cv[pick[0] % len(cv)]
        nodes = grid_nodes(spec.variables[w])
        new.functions["extra_filter"] = {"args": [w], "body": f"{w} >= {float(nodes[0]) - 1.0}"}
        new.params["extra_filter"] = {}
        return new
    if op == "filter_through_aux":
        if not ds:
            return None
        s = ds[pick[0] % len(ds)]
        new.functions["helper_fn"] = {"args": [s], "body": f"{s} + 1"}
        new.functions["extra_filter"] = {"args": ["helper_fn"], "body": "helper_fn >= 0"}
        new.params["helper_fn"] = {}
        new.params["extra_filter"] = {}
        return new
    if op == "empty_space_in_a_period":
        if not ds or T < 2:
            return None
        s = ds[pick[0] % len(ds)]
        m = np.ones((spec.size(s), T), dtype=bool)
        m[:, 1 + pick[1] % (T - 1)] = False
        new.consts["TABXF"] = m
        new.functions["extra_filter"] = {"args": [s, "_period"], "body": f"TABXF[{s}, _period]"}
        new.params["extra_filter"] = {}
        return new
    if op == "transition_into_excluded_state":
        cand = [x for x in ds if not spec.functions[f"next_{x}"].get("stochastic") and x not in spec.restricted()[0]]
        if not cand or T < 2:
            return None
        st_ = cand[pick[0] % len(cand)]
        # exclude, from period 1 on, a label that the (table) transition of the state can produce
        f = spec.functions[f"next_{st_}"]
        tabname = f["body"].split("[")[0]
        targets = np.unique(np.asarray(spec.consts[tabname]))
        j = int(targets[pick[1] % len(targets)])
        m = np.ones((spec.size(st_), T), dtype=bool)
        m[j, 1:] = False
        if not m[:, 1:].any():
            return None
        new.consts["TABXF"] = m
        new.functions["extra_filter"] = {"args": [st_, "_period"], "body": f"TABXF[{st_}, _period]"}
        new.params["extra_filter"] = {}
        return new
    if op == "unused_choice":
        if pick[0] % 2:
            new.choices["xunused"] = ("disc", 2)
        else:
            new.choices["xunused"] = ("lin", 0.0, 1.0, 3)
        return new
    if op == "single_label_state":
        new.states["xone"] = ("disc", 1)
        new.consts["TABX1"] = np.array([0])
        new.functions["next_xone"] = {"args": ["xone"], "body": "TABX1[xone]"}
        u = new.functions["utility"]
        u["args"] = u["args"] + ["xone"]
        u["body"] = f"({u['body']}) + 0.5 * xone"
        new.params["next_xone"] = {}
        return new
    if op == "no_choices":
        if C and any(c in a for f in spec.functions.values() for a in [f["args"]] for c in C):
            # rebuild a tiny choice-free model on the first discrete/continuous state
            s = S[0]
            g = spec.states[s]
            new = Spec(spec.n_periods, {s: g}, {}, {}, {}, {"beta": spec.params["beta"]})
            if g[0] == "disc":
                new.consts["TABU"] = np.linspace(-1, 1, g[1])
                new.consts["TABN"] = (np.arange(g[1]) + 1) % g[1]
                new.functions["utility"] = {"args": [s], "body": f"TABU[{s}]"}
                new.functions[f"next_{s}"] = {"args": [s], "body": f"TABN[{s}]"}
            else:
                new.functions["utility"] = {"args": [s], "body": f"xp.sqrt(xp.abs({s}) + 0.1)"}
                new.functions[f"next_{s}"] = {"args": [s], "body": f"xp.clip(0.9 * {s}, {g[1]}, {g[2]})"}
            new.params["utility"] = {}
            new.params[f"next_{s}"] = {}
        return new
    if op == "single_node_choice_grids":
        for c, g in spec.choices.items():
            if g[0] != "disc":
                new.choices[c] = (g[0], g[1], g[2], 1)
        return new
    return None


def initial_states(spec, n):
    """Initial states for all states; restricted discrete parts inside the period-0 space when
    that space can be enumerated from table filters."""
    init = {}
    try:
        ref = Reference(spec)
        sp_states, _, _, _, keep, _ = ref.layout(0)
        combos = np.argwhere(keep) if sp_states and keep is not None and keep.any() else None
    except Exception:  # noqa: BLE001
        sp_states, combos = [], None
    for s, g in spec.states.items():
        if g[0] == "disc":
            if combos is not None and s in sp_states:
                init[s] = np.array([int(combos[i % len(combos)][sp_states.index(s)]) for i in range(n)])
            else:
                init[s] = np.arange(n) % g[1]
        else:
            nodes = grid_nodes(g)
            init[s] = np.array([float(nodes[i % len(nodes)]) * (1.0 if i % 2 == 0 else 1.0) + (0.0 if i % 2 == 0 or len(nodes) < 2 else 0.37 * float(nodes[1] - nodes[0])) for i in range(n)])
    return init


def check_accept(case):
    import jax.numpy as jnp
    from lcm.entry_point import get_lcm_function
    from lcm.exceptions import GridInitializationError, ModelInitilizationError

    from ..ir import to_lcm_model

    spec = Spec.from_json(case["spec"])
    # the base model must be inside C01's supported class, so that the widening operator is the
    # only thing that leaves it (otherwise a failure cannot be attributed to a shape)
    base_ref = Reference(spec)
    base_ref.solve()
    ok, why = base_ref.supported(require_feasible=True)
    if not ok or base_ref.ambiguous:
        return None, "base_" + (why or "knife_edge"), None
    spec = widen(spec, case["op"], case["pick"])
    if spec is None:
        return None, "op_not_applicable", None
    allowed = (GridInitializationError, ModelInitilizationError, ValueError)
    fns = {}
    try:
        if case["op"] == "functions_with_signature_attribute":
            from ..ir import with_signature_attribute

            model = to_lcm_model(spec, wrap=with_signature_attribute)
        else:
            model = to_lcm_model(spec)
        for tgt in ("solve", "simulate", "solve_and_simulate"):
            fns[tgt], tmpl = get_lcm_function(model, targets=tgt, debug_mode=False)
    except allowed as e:
        if case["op"] == "functions_with_signature_attribute":
            return [f"a supported model whose functions carry a __signature__ attribute was rejected: {type(e).__name__}: {str(e)[:200]}"], "valid_model_rejected", spec
        return [], f"rejected:{type(e).__name__}", spec
    except Exception as e:  # noqa: BLE001
        return [f"widening {case['op']}: creation raised {type(e).__name__}: {str(e)[:200]}"], f"creation_wrong_exception:{type(e).__name__}", spec
    params = to_lcm_params(spec)
    init = {k: jnp.asarray(v) for k, v in initial_states(spec, case["n_agents"]).items()}
    stage = "solve"
    try:
        sol = call_lcm(fns["solve"], params)
        stage = "solve_and_simulate"
        call_lcm(fns["solve_and_simulate"], params, initial_states=init, seed=case["seed"])
        stage = "simulate"
        call_lcm(fns["simulate"], params, initial_states=init, vf_arr_list=sol, seed=case["seed"])
    except LcmCrash as e:
        # root cause by predicate on the input: a model whose (table) filters exclude every state
        # in some period is the 'empty space' shape whatever operator was applied on top of it
        op = case["op"]
        try:
            ref = Reference(spec)
            for t in range(spec.n_periods):
                keep = ref.layout(t)[4]
                if keep is not None and ref.layout(t)[0] and not keep.any():
                    op = "empty_space_in_a_period"
            if op == case["op"] and stage != "solve":
                # a model whose transitions lead into filter-excluded states (decided by the NumPy
                # reference from the specification alone) is its own shape, whatever operator was
                # applied on top of it
                if ref.leaves_space():
                    op = "transition_into_excluded_state"
        except Exception:  # noqa: BLE001
            pass
        return [f"accepted specification (widening operator {case['op']}, shape {op}) failed in {stage}: {e}"], f"accepted_crash:{op}:{stage}", spec
    return [], "accepted_and_ran", spec


def check(case):
    dg = case_digest(case)
    if case["dir"] == "reject":
        msgs, verdict = check_reject(case)
        out = Outcome(digest=dg, classes=["reject", verdict.split(":")[0]] + [f"op_{o}" for o in case["ops"]],
                      nontrivial=len(case["ops"]) >= 2)
        if msgs:
            out.status, out.reason, out.bucket = "violation", msgs[0], f"reject:{verdict}:{'+'.join(sorted(case['ops']))}"
            return out
        out.sample = {"ops": case["ops"], "verdict": verdict}
        return out
    msgs, verdict, spec = check_accept(case)
    if msgs is None:
        return Outcome(status="skip", reason=verdict, digest=dg)
    out = Outcome(digest=dg, classes=["accept", verdict.split(":")[0], f"widen_{case['op']}"],
                  nontrivial=verdict == "accepted_and_ran" and case["op"] != "none")
    if msgs:
        out.status, out.reason, out.bucket = "violation", msgs[0], verdict
        return out
    s = sample_of(spec)
    s["widening_operator"] = case["op"]
    s["verdict"] = verdict
    out.sample = s
    return out


def fixed_cases(tier):
    """Every single rule violation, in each of its variants, on one small supported model (the
    generated combinations above reach a given variant only with some probability)."""
    spec = Spec(
        n_periods=2,
        states={"w_x": ("lin", 1.0, 5.0, 3), "h_s": ("disc", 2)},
        choices={"c_x": ("lin", 0.5, 2.0, 3), "d_w": ("disc", 2)},
        functions={
            "utility": {"args": ["c_x", "d_w", "h_s"], "body": "xp.log(c_x) - 0.3 * d_w + 0.1 * h_s"},
            "next_w_x": {"args": ["w_x", "c_x", "d_w"], "body": "w_x - c_x + 1.5 * d_w"},
            "next_h_s": {"args": ["h_s", "d_w"], "body": "TABH[h_s, d_w]"},
            "budget_constraint": {"args": ["w_x", "c_x"], "body": "c_x <= w_x", "margin": "w_x - c_x"},
        },
        consts={"TABH": np.array([[0, 1], [1, 1]])},
        params={"beta": 0.9, "utility": {}, "next_w_x": {}, "next_h_s": {}, "budget_constraint": {}},
    ).to_json()
    # the same model with a (valid) stochastic discrete state: a second, invalid stochastic
    # variable must still be rejected
    spec_s = Spec.from_json(spec)
    spec_s.functions["next_h_s"] = {"args": ["h_s", "d_w"], "body": "None", "stochastic": True}
    spec_s.params["shocks"] = {"h_s": np.array([[[0.9, 0.1], [0.5, 0.5]], [[0.2, 0.8], [0.0, 1.0]]])}
    spec_s = spec_s.to_json()
    out = [{"dir": "accept", "spec": b, "op": "functions_with_signature_attribute", "pick": [0] * 6, "seed": 3, "n_agents": 2}
           for b in (spec, spec_s)]
    for op in ("stochastic_continuous_state", "stochastic_continuous_dep"):
        for v in range(4):
            for base in (spec, spec_s):
                out.append({"dir": "reject", "spec": base, "ops": [op], "pick": [0, 0, v, 0, 0, v % 3]})
    for op in REJECT_OPS:
        n_var = {"invalid_grid": 8, "n_periods": 2}.get(op, 1)
        for v in range(n_var):
            for key in range(4 if op == "invalid_grid" else 1):
                out.append({"dir": "reject", "spec": spec, "ops": [op], "pick": [key if op == "invalid_grid" else v, v, 0, 0, 0, v % 3]})
    return out


REJECT_SKIPS = False

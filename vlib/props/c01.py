"""C01 - solve() returns the exact backward-induction (Bellman) solution on the grid."""
from __future__ import annotations

import numpy as np
from hypothesis import strategies as st

from ..ir import Spec
from ..refmodel import Reference
from ..runner import Outcome, call_lcm
from ..strategies import Profile, model_specs

ID = "C01"
TITLE = "solve() returns the exact Bellman solution on the grid"
BUDGET = {"quick": 320, "thorough": 6000}
RULE = (
    "Cases are whole model specifications drawn from vlib.strategies.model_specs (numbers, kinds, "
    "names and declaration orders of variables; linear/log grids; table filters incl. "
    "period-dependent state-dropping ones; margin-form and table constraints; auxiliary functions; "
    "stochastic transitions with shuffled dependency lists; colliding parameter names), solved by "
    "lcm and by an independent NumPy Bellman recursion, compared entry by entry through the "
    "documented layout (tolerance 1e-9 relative to max(1,|V|), -inf pattern of the last period "
    "exact, jit=False vs jit=True 1e-9 (the tolerance of the value comparison) in 10% of cases; in another 10% a twin model with the same names but other table contents is solved first in the same process). Unsupported or knife-edge models are "
    "skipped (rejected, they do not use up budget). A case is non-trivial when T>=2 and (a filter "
    "or constraint removes some but not all choices of some state, or a next continuous state is "
    "strictly between nodes or outside a linear grid, or a stochastic row is non-degenerate); "
    "distinct = distinct digest of the model IR."
)
ASSUMPTIONS = [
    "float64 (jax_enable_x64), CPU backend",
    "NumPy reference model vlib/refmodel.py (about 300 lines) and the IR renderer are trusted",
    "user functions are drawn from the IR grammar (tables over discrete variables, smooth terms over continuous ones)",
    "bounds (quick): <=3 discrete + 2 continuous states, <=3+2 choices, grids <=6 nodes, T<=4, <=60000 state-choice points; the thorough tier adds a stream with <=3 continuous states and choices, grids <=7 nodes, T<=5, <=250000 points",
]

PROFILE = Profile()
PROFILE_INFEASIBLE = Profile(name="infeasible_last", free_constraints=0.9, p_table_constraint=1.0,
                             free_p_true=0.35, max_periods=3, p_filter=0.4, max_disc_choices=2,
                             max_cont_states=1, max_cont_choices=1, p_infeasible_last=0.7, min_disc_states=1,
                             min_periods=2)


PROFILE_DROP = Profile(name="drop_filter", p_filter=1.0, filter_modes=("drop",), p_period_filter=0.9,
                       min_periods=2, max_cont_states=1, max_cont_choices=1)


PROFILE_BIG = Profile(name="big", max_periods=5, max_cont_states=3, max_cont_choices=3, max_cont_state_nodes=7,
                      max_cont_choice_nodes=7, max_points=250_000, p_filter=0.6, p_stoch=0.35)
PROFILE_MULTI = Profile(name="multi_filter", p_filter=1.0, filter_modes=("keep_all", "keep_all", "free"),
                        p_period_filter=0.8, min_periods=3, max_cont_states=1, max_cont_choices=1, max_R=3)


def strategy(tier):
    multi = st.builds(
        lambda spec: {"spec": spec.to_json(), "jit_off": False},
        model_specs(PROFILE_MULTI),
    )
    drop = st.builds(
        lambda spec: {"spec": spec.to_json(), "jit_off": False},
        model_specs(PROFILE_DROP),
    )
    base = st.builds(
        lambda spec, jit: {"spec": spec.to_json(), "jit_off": jit == 0, "twin_first": jit == 1},
        model_specs(PROFILE),
        st.integers(0, 9),
    )
    inf = st.builds(
        lambda spec: {"spec": spec.to_json(), "jit_off": False, "infeasible_ok": True},
        model_specs(PROFILE_INFEASIBLE),
    )
    if tier == "thorough":
        # deeper bounds: up to 3 continuous states / choices, 5 periods, larger grids
        big = st.builds(
            lambda spec: {"spec": spec.to_json(), "jit_off": False},
            model_specs(PROFILE_BIG),
        )
        return st.one_of(base, base, base, drop, drop, multi, inf, big, big)
    return st.one_of(base, base, base, drop, drop, multi, inf)


TOL = 1e-9


def close(a, b, tol=TOL):
    return np.abs(a - b) <= tol * np.maximum(1.0, np.maximum(np.abs(a), np.abs(b)))


def nontrivial(spec, ref):
    """See RULE."""
    T = spec.n_periods
    if T < 2:
        return False, []
    classes = []
    ns = len(ref.order)
    nc = len(ref.choice_names)
    ax = tuple(range(ns, ns + nc))
    nt = False
    if nc:
        for t in range(T):
            f = np.broadcast_to(ref.feas[t], ref.full_shape)
            some = f.any(axis=ax)
            allf = f.all(axis=ax)
            if (some & ~allf).any():
                nt = True
                classes.append("partial_feasibility")
                break
    if ref.cont_states:
        env, shape = ref.env, ref.full_shape
        from ..refmodel import coordinate

        for s in ref.cont_states:
            nx = np.broadcast_to(np.asarray(ref.ev(f"next_{s}", env, 0, {}), dtype=float), shape)
            c = coordinate(spec.states[s], nx)
            frac = np.abs(c - np.round(c))
            if (frac > 1e-6).any():
                nt = True
                classes.append("interpolation")
            if ((c < -1e-6) | (c > spec.states[s][3] - 1 + 1e-6)).any():
                classes.append("extrapolation")
    for s in ref.stoch:
        P = np.asarray(spec.params["shocks"][s])
        if ((P > 0).sum(axis=-1) > 1).any():
            nt = True
            classes.append("stochastic_nondegenerate")
    return nt, classes


def model_classes(spec, ref):
    cl = []
    sp_s, sp_c = spec.restricted()
    if sp_s:
        cl.append("filter")
        keeps = [ref.layout(t)[4] for t in range(spec.n_periods)]
        if any(not k.all() for k in keeps):
            cl.append("filter_drops_states")
        if any(not np.array_equal(keeps[0], k) for k in keeps[1:]):
            cl.append("period_dependent_space")
    dch = [c for c in spec.choices if spec.choices[c][0] == "disc"]
    if sp_c and any(c not in sp_c for c in dch):
        cl.append("sparse_and_dense_discrete_choice")
    if any(g[0] == "log" for g in spec.variables.values()):
        cl.append("log_grid")
    if spec.stochastic_states():
        cl.append("stochastic")
    if spec.constraints():
        cl.append("constraint")
    if any(n for n in spec.functions if not n.startswith("next_") and n != "utility" and not n.endswith(("_filter", "_constraint"))):
        cl.append("aux_function")
    ncc = sum(1 for c in spec.choices.values() if c[0] != "disc")
    cl.append(f"cont_choices_{ncc}")
    if spec.mentions_period():
        cl.append("period_dependent_function")
    ub = spec.functions["utility"]["body"]
    if "0.05 * xp.log(" in ub:
        cl.append("utility_nan_where_infeasible")
    if any(f["args"] and f["args"][0].startswith("next_") for n, f in spec.functions.items() if n.endswith("_constraint")):
        cl.append("constraint_on_transition_output")
    if "budget_constraint" in spec.functions and "xp.minimum(" in spec.functions["budget_constraint"]["body"]:
        cl.append("lower_bound_constraint")
    if any(n in spec.functions for n in ("tax_filter_cost", "budget_constraint_slack")):
        cl.append("marker_inside_function_name")
    if any("(_period - 2)" in f["body"] for f in spec.functions.values()):
        cl.append("period_minus_two")
    if "xtie" in spec.choices:
        cl.append("near_tie_choice")
    return cl


def sample_of(spec):
    return {
        "n_periods": spec.n_periods,
        "states": {k: list(v) for k, v in spec.states.items()},
        "choices": {k: list(v) for k, v in spec.choices.items()},
        "functions": {k: {"args": v["args"], "body": v["body"][:120], **({"stochastic": True} if v.get("stochastic") else {})} for k, v in spec.functions.items()},
        "params": {k: v for k, v in spec.params.items() if k != "shocks"},
    }


def prepare(case, require_feasible=True):
    """Shared by the pipeline properties: build spec + reference, decide support.
    Returns (spec, ref, skip_reason)."""
    spec = Spec.from_json(case["spec"])
    ref = Reference(spec)
    ref.solve()
    sup, why = ref.supported(require_feasible=require_feasible)
    if not sup:
        return spec, ref, why
    if ref.ambiguous:
        return spec, ref, "knife_edge"
    return spec, ref, None


def lcm_solve(spec, jit=True):
    from lcm.entry_point import get_lcm_function

    from ..ir import to_lcm_model, to_lcm_params

    model = to_lcm_model(spec)
    solve, tmpl = call_lcm(get_lcm_function, model, targets="solve", jit=jit, debug_mode=False)
    sol = call_lcm(solve, to_lcm_params(spec))
    return [np.asarray(a) for a in sol]


def compare_solution(spec, ref, sol, tol=TOL):
    """lcm solution vs reference through the documented layout. Returns list of messages."""
    msgs = []
    T = spec.n_periods
    if len(sol) != T:
        return [f"solution has {len(sol)} arrays, expected {T}"]
    for t in range(T):
        exp = ref.to_lcm_layout(ref.V[t], t)
        got = np.asarray(sol[t])
        if got.shape != exp.shape:
            msgs.append(f"t={t}: shape {got.shape}, documented layout gives {exp.shape}")
            continue
        fin = np.isfinite(exp)
        bad = fin & ~close(np.where(fin, got, 0.0), np.where(fin, exp, 0.0), tol)
        bad |= fin & ~np.isfinite(got)
        if bad.any():
            i = tuple(np.argwhere(bad)[0])
            msgs.append(
                f"t={t}: {int(bad.sum())}/{bad.size} entries differ, e.g. at {i}: lcm {got[i]!r} reference {exp[i]!r}"
            )
        if t == T - 1:
            if not np.array_equal(np.isneginf(got), np.isneginf(exp)):
                msgs.append(f"t={t}: -inf pattern of the last period differs")
        else:
            # a state whose every feasible choice leads to -inf (e.g. into a last-period state
            # without a feasible choice) has value -inf; NaN entries of the reference (0 * inf)
            # are not judged
            ninf = np.isneginf(exp)
            if ninf.any() and not np.isneginf(got[ninf]).all():
                i = tuple(np.argwhere(ninf & ~np.isneginf(got))[0])
                msgs.append(f"t={t}: reference value at {i} is -inf (every feasible choice leads to a state of value -inf), lcm returns {got[i]!r}")
    return msgs


def check(case):
    spec, ref, skip = prepare(case, require_feasible=True)
    dg = spec.digest()
    if skip:
        return Outcome(status="skip", reason=skip, digest=dg)
    if not case.get("infeasible_ok"):
        # outside the dedicated stream, non-finite values anywhere make the case unsupported
        if not all(np.isfinite(ref.to_lcm_layout(v, t)).all() for t, v in enumerate(ref.V)):
            return Outcome(status="skip", reason="nonfinite_reference", digest=dg)
    nt, cl = nontrivial(spec, ref)
    classes = model_classes(spec, ref) + cl
    if not np.isfinite(ref.to_lcm_layout(ref.V[-1], spec.n_periods - 1)).all():
        classes.append("last_period_infeasible_state")
        nt = True
    if case.get("twin_first"):
        from ..ir import twin

        try:
            lcm_solve(twin(spec), jit=True)
            classes.append("twin_model_solved_first")
        except Exception:  # noqa: BLE001  (only a disturbance)
            classes.append("twin_model_failed")
    sol = lcm_solve(spec, jit=True)
    msgs = compare_solution(spec, ref, sol)
    if case.get("jit_off") and not msgs:
        classes.append("jit_off_compared")
        sol2 = lcm_solve(spec, jit=False)
        for t, (a, b) in enumerate(zip(sol, sol2)):
            if a.shape != b.shape:
                msgs.append(f"t={t}: jit=False shape {b.shape} != jit=True shape {a.shape}")
            else:
                fin = np.isfinite(a) & np.isfinite(b)
                if not np.array_equal(np.isfinite(a), np.isfinite(b)) or not close(a[fin], b[fin], TOL).all():
                    msgs.append(f"t={t}: jit=False result differs from jit=True")
    if msgs:
        kind = "shape" if any("shape" in m for m in msgs) else "value"
        return Outcome(status="violation", reason="; ".join(msgs[:4]), bucket=f"solve_mismatch:{kind}",
                       digest=dg, classes=classes, nontrivial=nt)
    return Outcome(status="ok", digest=dg, classes=classes, nontrivial=nt, sample=sample_of(spec))

TECHNIQUE = "property-based differential testing: Hypothesis-generated model specifications vs an independent NumPy Bellman reference"
LEVEL_TEXT = (
    "Exploration: several hundred (quick) to several thousand (thorough) generated model specifications per run, "
    "each solved by lcm and by an independent NumPy reference and compared entry by entry. Shows absence of "
    "violations only on the explored models; strong at wiring/indexing/masking errors, which change values by O(1)."
)

"""C05 - value arrays follow the documented axis layout."""
from __future__ import annotations

import numpy as np
from hypothesis import strategies as st

from ..runner import Outcome
from ..strategies import Profile, model_specs
from .c01 import compare_solution, lcm_solve, model_classes, prepare, sample_of

ID = "C05"
TITLE = "Value arrays follow the documented axis layout"
BUDGET = {"quick": 250, "thorough": 4000}
RULE = (
    "Cases = supported models from the 'layout' profile: up to 3 filter-restricted + further unrestricted discrete "
    "states and up to 2 continuous states with PAIRWISE DISTINCT sizes, independently shuffled declaration orders of "
    "states, choices and functions, period-dependent state-dropping filters, T=2-3, few cheap choices, random "
    "utility tables (no two axes carry the same values). Oracle computed from the specification alone: list length "
    "= T; shape of period t = (number of admissible restricted-state combinations in t if any state is restricted, "
    "sizes of unrestricted discrete states in declaration order, sizes of continuous states in declaration order); "
    "entry-by-entry equality (1e-9) with the NumPy reference mapped through that layout, so a transposition of "
    "equal-sized axes or a reordering of the leading axis is caught by values and any other by shape. Non-trivial: "
    ">=3 axes in some array, or a restricted axis whose admissible set differs between periods; distinct by model digest."
)
ASSUMPTIONS = ["float64, CPU", "NumPy reference and layout map (vlib/refmodel.py) trusted", "bounds: <=60000 state-choice points, T<=3"]
TECHNIQUE = "property-based differential testing: documented layout derived from the specification alone vs lcm's arrays, over generated declaration orders and filter sets"
LEVEL_TEXT = "Exploration over generated models with many distinctly sized state axes and shuffled declaration orders."

PROFILE = Profile(name="layout", min_periods=2, max_periods=3, max_disc_states=4, max_cont_states=2,
                  max_disc_choices=2, max_cont_choices=1, max_cont_choice_nodes=3, distinct_sizes=True,
                  p_filter=0.75, filter_modes=("keep_all", "drop", "drop", "free"), p_period_filter=0.7, max_R=3,
                  p_stoch=0.2, p_aux=0.3, max_disc_size=4, max_points=60_000)


# more than 16 variables (many two-label states): orderings that are only stable for short
# lists show up here
PROFILE_MANY = Profile(name="many_variables", min_periods=2, max_periods=2, min_disc_states=13, max_disc_states=15,
                       max_disc_size=2, max_cont_states=1, max_disc_choices=2, max_cont_choices=1,
                       max_cont_choice_nodes=2, max_cont_state_nodes=2, p_filter=0.3, p_stoch=0.1, p_aux=0.2,
                       p_table_constraint=0.2, max_points=300_000, max_R=2)


def strategy(tier):
    base = st.builds(lambda spec: {"spec": spec.to_json()}, model_specs(PROFILE))
    many = st.builds(lambda spec: {"spec": spec.to_json()}, model_specs(PROFILE_MANY))
    return st.one_of(*([base] * 15), many)


def check(case):
    spec, ref, skip = prepare(case)
    dg = spec.digest()
    if skip:
        return Outcome(status="skip", reason=skip, digest=dg)
    if not all(np.isfinite(ref.to_lcm_layout(v, t)).all() for t, v in enumerate(ref.V)):
        return Outcome(status="skip", reason="nonfinite_reference", digest=dg)
    sol = lcm_solve(spec, jit=True)
    msgs = compare_solution(spec, ref, sol)
    shapes = [ref.expected_shape(t) for t in range(spec.n_periods)]
    keeps = [ref.layout(t)[4] for t in range(spec.n_periods)]
    varying = keeps[0] is not None and any(not np.array_equal(keeps[0], k) for k in keeps[1:])
    nt = any(len(s) >= 3 for s in shapes) or varying
    cl = model_classes(spec, ref) + [f"axes_{min(max(len(s) for s in shapes), 5)}"]
    out = Outcome(digest=dg, classes=cl, nontrivial=nt)
    if msgs:
        out.status = "violation"
        out.reason = "; ".join(msgs[:3])
        out.bucket = "layout:" + ("shape" if any("shape" in m for m in msgs) else "value")
        return out
    s = sample_of(spec)
    s["documented_shapes"] = [list(x) for x in shapes]
    out.sample = s
    return out

"""C19 - vectorisation dispatchers equal nested loops over named arguments."""
from __future__ import annotations

import itertools

import numpy as np
from hypothesis import strategies as st

from ..runner import LcmCrash, Outcome, call_lcm, case_digest

ID = "C19"
TITLE = "Vectorisation dispatchers equal nested loops over named arguments"
BUDGET = {"quick": 2500, "thorough": 40000}
CLEAR_CACHES_EVERY = 300
RULE = (
    "Functions are synthesised with exec: 1-5 parameters, each positional-only / positional-or-keyword / "
    "keyword-only (legal orders), body = sum of c_i*p_i with distinct irrational-like c_i plus a product term, "
    "output scalar / tuple / dict / length-4 vector / dict with a scalar and a vector leaf (non-scalar leaves: the mapped axes must come before the leaf's own dimensions). Sub-checks: productmap(f, ordered subset), vmap_1d(f, subset), spacemap(f, "
    "dense, sparse, put_dense_first in {True,False}) with pairwise distinct array lengths 2..6, compared with Python "
    "nested loops (axes follow the LISTED order; joint map pairs elements; joint axis first/last as requested; every "
    "pytree leaf); wrappers allow_only_kwargs / allow_args / convert_kwargs_to_args / all_as_kwargs / all_as_args / "
    "get_union_of_arguments with permuted keyword order, mixed positional+keyword calls, one missing / one "
    "unexpected argument (must raise ValueError) and signature preservation; the same function with a default value for its last parameter must reject a misspelt keyword although the argument count is right. Fixed exhaustive part: all 64 ordered "
    "subsets of a 4-parameter function x 3 output kinds for productmap. Non-trivial: >=3 mapped names (or >=2 for "
    "wrappers' keyword permutations) listed in an order different from the signature order; distinct by case digest."
)
ASSUMPTIONS = ["float64, CPU", "Python nested loops / inspect.signature.bind as oracle"]
TECHNIQUE = "property-based testing against a nested-loop reference over generated function signatures, mapped-name orders and keyword orders (plus an exhaustive enumeration for 4-parameter signatures)"
LEVEL_TEXT = "Exploration (plus a small exhaustive core): thousands of generated signatures and mapping orders compared with nested loops."

COEF = [0.7310585786, 1.4142135624, -2.2360679775, 3.1415926536, -0.5772156649]
# two of the names are names lcm itself uses for special arguments: a mapped or bound argument may
# be called like that (the statement quantifies over all functions)
NAMES = ["a", "params", "c", "vf_arr", "e"]
_OLD_NAMES = ["a", "b", "c", "d", "e"]  # names in replay files saved before the pool was changed


def _idx(n):
    return NAMES.index(n) if n in NAMES else _OLD_NAMES.index(n)
LENS = [2, 3, 4, 5, 6]


@st.composite
def signatures(draw, nmin=1, nmax=5):
    n = draw(st.integers(nmin, nmax))
    names = draw(st.permutations(NAMES))[:n]
    n_po = draw(st.integers(0, n))
    n_kw = draw(st.integers(0, n - n_po))
    kinds = ["po"] * n_po + ["pk"] * (n - n_po - n_kw) + ["kw"] * n_kw
    return {"names": list(names), "kinds": kinds, "out": draw(st.sampled_from(["scalar", "tuple", "dict", "vector", "dict_vec"]))}


@st.composite
def case_map(draw):
    sig = draw(signatures())
    names = sig["names"]
    kind = draw(st.sampled_from(["productmap", "productmap", "vmap_1d", "spacemap"]))
    k = draw(st.integers(1, len(names)))
    mapped = draw(st.permutations(names))[:k]
    c = {"kind": kind, "sig": sig, "mapped": list(mapped), "kw_order": list(draw(st.permutations(names))),
         "vals": [draw(st.integers(-20, 20)) / 4 for _ in range(5)]}
    if kind == "spacemap":
        cut = draw(st.integers(0, k))
        c["dense"] = list(mapped[:cut])
        c["sparse"] = list(mapped[cut:])
        c["put_dense_first"] = draw(st.booleans())
    return c


@st.composite
def case_wrap(draw):
    sig = draw(signatures())
    names = sig["names"]
    return {"kind": "wrap", "sig": sig, "kw_order": list(draw(st.permutations(names))),
            "n_pos": draw(st.integers(0, len(names))),
            "vals": [draw(st.integers(-20, 20)) / 4 for _ in range(5)],
            "drop": draw(st.integers(0, len(names) - 1))}


def strategy(tier):
    return st.one_of(case_map(), case_map(), case_wrap())


def fixed_cases(tier):
    out = []
    names = NAMES[:4]
    for outk in ("scalar", "tuple", "dict"):
        for k in range(1, 5):
            for mapped in itertools.permutations(names, k):
                out.append({"kind": "productmap", "sig": {"names": names, "kinds": ["pk"] * 4, "out": outk},
                            "mapped": list(mapped), "kw_order": names[::-1], "vals": [0.5, -1.25, 2.0, 3.75, 1.0],
                            "exhaustive_core": True})
    return out


def make_func(sig, xp_name="jnp", default_last=False):
    names, kinds = sig["names"], sig["kinds"]
    parts = []
    for i, (n, k) in enumerate(zip(names, kinds)):
        if k == "kw" and (i == 0 or kinds[i - 1] != "kw"):
            parts.append("*")
        parts.append(n + "=7.5" if (default_last and i + 1 == len(names)) else n)
        if k == "po" and (i + 1 == len(names) or kinds[i + 1] != "po"):
            parts.append("/")
    lin = " + ".join(f"{COEF[_idx(n)]!r} * {n}" for n in names)
    prod = " * ".join(f"({n} + {i + 1}.5)" for i, n in enumerate(names))
    e1 = f"{lin} + 0.01 * {prod}"
    e2 = " - ".join(f"{COEF[(_idx(n) + 2) % 5]!r} * {n}" for n in names)
    # non-scalar leaves: a length-4 vector (4 = the joint-map length, so that a misplaced
    # axis is not always visible in the shape and must be caught by values)
    vec = f"xp.stack([{e1}, {e2}, 2.0 * ({e1}), ({e2}) - 1.0])"
    body = {"scalar": e1, "tuple": f"({e1}, {e2})", "dict": f"{{'u': {e1}, 'v': {e2}}}",
            "vector": vec, "dict_vec": f"{{'u': {e1}, 'w': {vec}}}"}[sig["out"]]
    src = f"def f({', '.join(parts)}):\n    return {body}\n"
    import jax.numpy as jnp

    ns = {"xp": jnp}
    exec(src, ns)  # noqa: S102
    return ns["f"], src


def leaves(x):
    if isinstance(x, tuple):
        return list(x)
    if isinstance(x, dict):
        return [x[k] for k in sorted(x)]
    return [x]


def call_by_name(f, sig, kw):
    """Reference binding: positional-only parameters positionally, the rest by keyword."""
    pos = [kw[n] for n, k in zip(sig["names"], sig["kinds"]) if k == "po"]
    rest = {n: kw[n] for n, k in zip(sig["names"], sig["kinds"]) if k != "po"}
    return f(*pos, **rest)


def check_map(case):
    import jax.numpy as jnp
    from lcm.dispatchers import productmap, spacemap, vmap_1d

    sig = case["sig"]
    f, src = make_func(sig)
    names = sig["names"]
    mapped = case["mapped"]
    kind = case["kind"]
    scal = {n: case["vals"][_idx(n)] for n in names}
    arrs = {}
    joint_len = 4
    for n in mapped:
        L = LENS[_idx(n)]
        if kind == "vmap_1d" or (kind == "spacemap" and n in case["sparse"]):
            L = joint_len
        arrs[n] = scal[n] + 0.5 * np.arange(L) * (1 + _idx(n))
    kw = {n: (jnp.asarray(arrs[n]) if n in arrs else scal[n]) for n in case["kw_order"]}
    if kind == "productmap":
        g = call_lcm(productmap, f, list(mapped))
        axes = [[n] for n in mapped]
    elif kind == "vmap_1d":
        g = call_lcm(vmap_1d, f, list(mapped))
        axes = [list(mapped)]
    else:
        g = call_lcm(spacemap, f, list(case["dense"]), list(case["sparse"]), put_dense_first=case["put_dense_first"])
        dense_axes = [[n] for n in case["dense"]]
        sparse_axes = [list(case["sparse"])] if case["sparse"] else []
        if not case["sparse"]:
            axes = dense_axes
        elif case["put_dense_first"]:
            axes = dense_axes + sparse_axes
        else:
            axes = sparse_axes + dense_axes
    got = call_lcm(g, **kw)
    got_leaves = [np.asarray(x) for x in leaves(got)]
    shape = tuple(len(arrs[group[0]]) for group in axes)
    msgs = []
    ref0 = leaves(call_by_name(f, sig, scal))
    if len(got_leaves) != len(ref0):
        return [f"pytree structure differs: {type(got).__name__}"], False
    exp = [np.zeros(shape + np.shape(np.asarray(r))) for r in ref0]
    for idx in itertools.product(*[range(s) for s in shape]):
        point = dict(scal)
        for group, i in zip(axes, idx):
            for n in group:
                point[n] = arrs[n][i]
        for e, v in zip(exp, leaves(call_by_name(f, sig, point))):
            e[idx] = np.asarray(v)
    for li, (gl, el) in enumerate(zip(got_leaves, exp)):
        if gl.shape != el.shape:
            msgs.append(f"{kind}({mapped}) leaf {li}: shape {gl.shape}, nested loops give {el.shape}")
        elif not np.allclose(gl, el, rtol=1e-12, atol=1e-12):
            bad = tuple(np.argwhere(~np.isclose(gl, el, rtol=1e-12, atol=1e-12))[0])
            msgs.append(f"{kind}({mapped}) leaf {li}: entry {bad} is {gl[bad]!r}, nested loops give {el[bad]!r}; f = {src.strip()}")
    # signature preserved (names and order)
    import inspect

    if list(inspect.signature(g).parameters) != names:
        msgs.append(f"signature of the dispatched function {list(inspect.signature(g).parameters)} != {names}")
    sig_order = [n for n in names if n in mapped]
    nt = len(mapped) >= 3 and list(mapped) != sig_order
    return msgs, nt


def expect_value_error(fn, *a, **k):
    try:
        fn(*a, **k)
    except ValueError:
        return None
    except Exception as e:  # noqa: BLE001
        return f"raised {type(e).__name__} instead of ValueError"
    return "did not raise"


def check_wrap(case):
    import inspect

    from lcm.functools import (
        all_as_args,
        all_as_kwargs,
        allow_args,
        allow_only_kwargs,
        convert_kwargs_to_args,
        get_union_of_arguments,
    )

    sig = case["sig"]
    f, src = make_func(sig)
    names = sig["names"]
    vals = {n: case["vals"][_idx(n)] for n in names}
    exp = leaves(call_by_name(f, sig, vals))
    msgs = []
    kw = {n: vals[n] for n in case["kw_order"]}

    def same(x):
        return len(leaves(x)) == len(exp) and all(np.array_equal(np.asarray(a), np.asarray(b)) for a, b in zip(leaves(x), exp))

    # allow_only_kwargs
    g = call_lcm(allow_only_kwargs, f)
    if not same(call_lcm(g, **kw)):
        msgs.append(f"allow_only_kwargs: keyword order {case['kw_order']} changes the result; f = {src.strip()}")
    ps = inspect.signature(g).parameters
    if list(ps) != names or any(p.kind != inspect.Parameter.KEYWORD_ONLY for p in ps.values()):
        msgs.append("allow_only_kwargs: signature not preserved as keyword-only with the same names/order")
    miss = {n: v for n, v in kw.items() if n != names[case["drop"]]}
    r = expect_value_error(g, **miss)
    if r:
        msgs.append(f"allow_only_kwargs with a missing argument {r}")
    r = expect_value_error(g, **kw, zzz=1.0)
    if r:
        msgs.append(f"allow_only_kwargs with an unexpected argument {r}")
    r = expect_value_error(g, *[vals[n] for n in names])
    if r:
        msgs.append(f"allow_only_kwargs called positionally {r}")
    # allow_args: first n_pos positionally, the rest as keywords in permuted order
    h = call_lcm(allow_args, f)
    npos = case["n_pos"]
    pos = [vals[n] for n in names[:npos]]
    rest = {n: vals[n] for n in case["kw_order"] if n in names[npos:]}
    if not same(call_lcm(h, *pos, **rest)):
        msgs.append(f"allow_args: mixed call ({npos} positional, keywords {list(rest)}) changes the result; f = {src.strip()}")
    if list(inspect.signature(h).parameters) != names:
        msgs.append("allow_args: signature names/order not preserved")
    if len(names) > 1:
        rest_m = {n: v for n, v in rest.items() if n != names[-1]}
        pos_m = pos if names[-1] in rest else pos[:-1]
        r = expect_value_error(h, *pos_m, **rest_m)
        if r:
            msgs.append(f"allow_args with a missing argument {r}")
    r = expect_value_error(h, *pos, **rest, zzz=1.0)
    if r:
        msgs.append(f"allow_args with an unexpected argument {r}")
    if rest:
        # one missing AND one unexpected (count matches)
        rest_x = dict(rest)
        rest_x.pop(next(iter(rest_x)))
        rest_x["zzz"] = 1.0
        r = expect_value_error(h, *pos, **rest_x)
        if r:
            msgs.append(f"allow_args with one missing and one unexpected argument {r}")
    if rest and pos:
        # one missing AND one given twice (positionally and by keyword; count matches)
        rest_d = dict(rest)
        rest_d.pop(next(iter(rest_d)))
        rest_d[names[0]] = 123.0
        r = expect_value_error(h, *pos, **rest_d)
        if r:
            msgs.append(f"allow_args with one argument missing and another given both positionally and by keyword {r}")
    # the same function with a DEFAULT VALUE for its last parameter: a call with the right number
    # of arguments in which the last parameter's keyword is misspelt must be rejected (Python
    # itself would not complain about the missing argument)
    fd, _ = make_func(sig, default_last=True)
    hd = call_lcm(allow_args, fd)
    if len(names) >= 1:
        npos_d = min(npos, len(names) - 1)
        pos_d = [vals[n] for n in names[:npos_d]]
        rest_d = {n: vals[n] for n in case["kw_order"] if n in names[npos_d:-1]}
        if not same(call_lcm(hd, *pos_d, **rest_d, **{names[-1]: vals[names[-1]]})):
            msgs.append("allow_args on a function with a default value: valid call changes the result")
        try:
            r_val = hd(*pos_d, **rest_d, zzz=vals[names[-1]])
            msgs.append(f"allow_args on a function whose last parameter has a default: an unexpected keyword (right argument count) was accepted and returned {leaves(r_val)[0]!r}")
        except (ValueError, TypeError):
            pass
        except Exception as e:  # noqa: BLE001
            msgs.append(f"allow_args with an unexpected keyword raised {type(e).__name__}")
    # helpers
    if call_lcm(convert_kwargs_to_args, dict(kw), list(names)) != [vals[n] for n in names]:
        msgs.append("convert_kwargs_to_args does not order by parameter list")
    if call_lcm(all_as_kwargs, tuple(pos), dict(rest), arg_names=list(names)) != vals:
        msgs.append("all_as_kwargs wrong")
    if list(call_lcm(all_as_args, tuple(pos), dict(rest), arg_names=list(names))) != [vals[n] for n in names]:
        msgs.append("all_as_args wrong")
    f2, _ = make_func({"names": names[::-1][: max(1, len(names) - 1)], "kinds": ["pk"] * max(1, len(names) - 1), "out": "scalar"})
    if call_lcm(get_union_of_arguments, [f, f2]) != set(names):
        msgs.append("get_union_of_arguments wrong")
    nt = len(names) >= 2 and case["kw_order"] != names
    return msgs, nt


def check(case):
    fn = check_wrap if case["kind"] == "wrap" else check_map
    msgs, nt = fn(case)
    cl = [f"kind_{case['kind']}", f"out_{case['sig']['out']}"]
    if "po" in case["sig"]["kinds"]:
        cl.append("has_positional_only")
    if "kw" in case["sig"]["kinds"]:
        cl.append("has_keyword_only")
    out = Outcome(digest=case_digest(case), classes=cl, nontrivial=nt)
    if case.get("exhaustive_core"):
        out.info = {"exhaustive_core_cases": 1}
    if msgs:
        out.status = "violation"
        out.reason = "; ".join(msgs[:3])
        out.bucket = f"dispatch:{case['kind']}:" + msgs[0].split(":")[0][:40]
        return out
    out.sample = case
    return out

"""C20 - extreme-value aggregation of choice values is an exact, stable log-sum-exp."""
from __future__ import annotations

import numpy as np
from hypothesis import strategies as st

from ..runner import Outcome, call_lcm, case_digest

ID = "C20"
TITLE = "Extreme-value aggregation of choice values is an exact, stable log-sum-exp"
BUDGET = {"quick": 6000, "thorough": 120000}
CLEAR_CACHES_EVERY = 500
RULE = (
    "Cases = (values array of rank 1-4 with axis sizes 1-4, choice-axis subset (possibly none), optional sorted "
    "non-empty segmentation of the leading axis, scale s log-uniform in [1e-6, 1e6], value magnitude 1e-3..1e6, "
    "spread 0..1e6 (constant arrays and arrays with 2-3 distinct levels give exact ties at the maximum; 1 case in 8 has integer dtype), shift c). _calculate_emax_extreme_value_shocks / _segment_logsumexp are compared with "
    "scipy.special.logsumexp in float64 on the same grouping (1e-9 relative to max(|max|, s, 1)); the result must be "
    "finite, lie in [max, max + s*log(n)] (+1e-9 slack), shift by c when c is added to all values, be within "
    "s*log(n) of the max, and the same data arranged as an extra array axis and as equal-length segments of the "
    "leading axis must give the same result. Non-trivial: spread/s > 50 with >=3 choices per state (a naive "
    "log(sum(exp)) would overflow or underflow); distinct by case digest."
)
ASSUMPTIONS = ["float64, CPU", "scipy.special.logsumexp (float64) as oracle", "s >= 1e-6 and |values| <= 1e6 (stated domain)"]
TECHNIQUE = "property-based testing against scipy's logsumexp plus algebraic laws (bounds, shift equivariance, layout equivalence) over generated arrays, axes, segmentations and scales"
LEVEL_TEXT = "Exploration: thousands of generated arrays per run compared with an independent float64 oracle and four algebraic laws."


@st.composite
def cases(draw):
    rank = draw(st.integers(1, 4))
    shape = [draw(st.integers(1, 4)) for _ in range(rank)]
    use_seg = draw(st.booleans())
    sizes = None
    if use_seg:
        nseg = draw(st.integers(1, 4))
        sizes = [draw(st.integers(1, 4)) for _ in range(nseg)]
        shape[0] = sum(sizes)
    lo = 1 if use_seg else 0
    k = draw(st.integers(0 if use_seg else 1, rank - lo)) if rank - lo > 0 else 0
    axes = sorted(draw(st.lists(st.integers(lo, rank - 1), min_size=k, max_size=k, unique=True))) if k else []
    if not axes and not use_seg:
        axes = [0]
    n = int(np.prod(shape))
    return {
        "shape": shape, "axes": axes, "sizes": sizes,
        "log10_scale": draw(st.integers(-60, 60)) / 10,
        "log10_mag": draw(st.integers(-30, 60)) / 10,
        "log10_spread": draw(st.sampled_from([None, -3, -1, 0, 1, 2, 3, 4, 5, 6])),
        "u": draw(st.lists(st.integers(-1000, 1000), min_size=n, max_size=n)),
        "sign": draw(st.sampled_from([1, -1])),
        "levels": draw(st.sampled_from([None, None, None, 2, 3])),
        "int_dtype": draw(st.integers(0, 7)) == 0,
        "shift": draw(st.sampled_from([0.0, 1.0, -37.5, 1e3, -1e6, 1e6])),
    }


def strategy(tier):
    return cases()


def build(case):
    shape = tuple(case["shape"])
    u = np.asarray(case["u"], dtype=float).reshape(shape) / 1000.0
    mag = 10.0 ** case["log10_mag"]
    spread = 0.0 if case["log10_spread"] is None else 10.0 ** case["log10_spread"]
    if case.get("levels"):
        # only a few distinct values: exact ties, also at the maximum of a slice / segment
        u = (np.asarray(case["u"]).reshape(shape) % case["levels"]) / case["levels"]
    v = case["sign"] * mag + spread * u
    v = np.clip(v, -1e6, 1e6)
    if case.get("int_dtype"):
        v = np.round(v).astype(np.int64)
    return v, 10.0 ** case["log10_scale"]


def oracle(v, s, axes, sizes):
    from scipy.special import logsumexp

    out = v
    if axes:
        out = s * logsumexp(out / s, axis=tuple(axes))
        mx = v.max(axis=tuple(axes))
        n = int(np.prod([v.shape[a] for a in axes]))
        nn = np.full(mx.shape, n)
    else:
        mx = v
        nn = np.ones(v.shape, dtype=int)
    if sizes:
        ids = np.repeat(np.arange(len(sizes)), sizes)
        out = np.stack([s * logsumexp(out[ids == r] / s, axis=0) for r in range(len(sizes))])
        nn = np.stack([nn[ids == r].sum(axis=0) for r in range(len(sizes))])
        mx = np.stack([mx[ids == r].max(axis=0) for r in range(len(sizes))])
    return out, mx, nn


def run(v, s, axes, sizes):
    import jax.numpy as jnp
    from lcm.discrete_problem import _calculate_emax_extreme_value_shocks

    segs = None
    if sizes:
        segs = {"segment_ids": jnp.asarray(np.repeat(np.arange(len(sizes)), sizes)), "num_segments": len(sizes)}
    return np.asarray(
        call_lcm(
            _calculate_emax_extreme_value_shocks, jnp.asarray(v), tuple(axes) if axes else None, segs,
            {"additive_utility_shock": {"scale": s}},
        )
    )


def check(case):
    v, s = build(case)
    axes, sizes = case["axes"], case["sizes"]
    got = run(v, s, axes, sizes)
    exp, mx, nn = oracle(v, s, axes, sizes)
    msgs = []
    desc = f"shape={v.shape} axes={axes} segments={sizes} scale={s:.3g}"
    if got.shape != exp.shape:
        msgs.append(f"{desc}: result shape {got.shape}, expected {exp.shape}")
    else:
        tol = 1e-9 * np.maximum(np.maximum(np.abs(mx), s), 1.0)
        if not np.isfinite(got).all():
            msgs.append(f"{desc}: non-finite result for finite inputs (max |v| {np.abs(v).max():.3g})")
        elif not (np.abs(got - exp) <= tol).all():
            i = tuple(np.argwhere(~(np.abs(got - exp) <= tol))[0])
            msgs.append(f"{desc}: entry {i} = {got[i]!r}, s*log(sum(exp(v/s))) = {exp[i]!r}")
        else:
            if not ((got >= mx - tol) & (got <= mx + s * np.log(nn) + tol)).all():
                msgs.append(f"{desc}: result outside [max, max + s*log(n)]")
            c = case["shift"]
            if c:
                got_c = run(v + c, s, axes, sizes)
                tol_c = tol + 1e-12 * abs(c) * 4 + 4 * np.spacing(np.abs(v).max() + abs(c))
                if not (np.abs(got_c - (got + c)) <= tol_c).all():
                    msgs.append(f"{desc}: adding {c} to all values does not shift the result by {c}")
            # layout equivalence: axis <-> equal-length segments
            if not sizes and axes == [0] and v.ndim >= 2:
                k = v.shape[0]
                flat = np.transpose(v, (1, 0) + tuple(range(2, v.ndim))).reshape((-1,) + v.shape[2:])
                got_seg = run(flat, s, [], [k] * v.shape[1])
                if got_seg.shape != got.shape or not (np.abs(got_seg - got) <= tol).all():
                    msgs.append(f"{desc}: axis layout and segment layout of the same data disagree")
    spread = float(v.max() - v.min())
    out = Outcome(digest=case_digest(case), nontrivial=bool(spread / s > 50 and (nn >= 3).all()),
                  classes=["segments" if sizes else "no_segments", "axes" if axes else "no_axes"]
                  + (["tied_values"] if case.get("levels") or case["log10_spread"] is None else [])
                  + (["integer_values"] if case.get("int_dtype") else []))
    if msgs:
        out.status = "violation"
        out.reason = "; ".join(msgs[:2])
        out.bucket = "logsumexp:" + ("nonfinite" if "non-finite" in msgs[0] else "value")
        return out
    out.sample = {k: case[k] for k in ("shape", "axes", "sizes", "log10_scale", "log10_mag", "log10_spread", "shift")}
    return out

"""C02 - simulated decisions are feasible maximisers of the agent's objective."""
from __future__ import annotations

import numpy as np
from hypothesis import strategies as st

from .. import simcheck
from ..runner import Outcome, call_lcm, case_digest
from ..strategies import Profile, expand_agents, materialise_agents, model_specs, raw_agents
from .c01 import model_classes, prepare, sample_of

ID = "C02"
TITLE = "Simulated decisions are feasible maximisers of the agent's objective"
BUDGET = {"quick": 200, "thorough": 3000}
RULE = (
    "Cases = (supported model specification, 1-8 agents with on-grid / off-grid / slightly-outside initial "
    "states drawn from the period-0 space, seed, source of value arrays: lcm's own solution via "
    "solve_and_simulate, or ARBITRARY arrays of the documented shapes passed to the 'simulate' target). "
    "For every row (period, agent) the oracle recomputes Q over all grid choice combinations with the NumPy "
    "reference from the value arrays in use and requires: every reported choice is a grid node, the combination "
    "is feasible, Q(reported) >= max feasible Q - 1e-9*max(1,|max|), value == max (same tolerance). Rows without "
    "a finite maximum or on a constraint knife edge are skipped and counted. One case in 6 comes from the constructive 'infeasible last period' stream (some discrete state labels have no feasible choice in the last period, so the value arrays in use contain -inf and choices leading there have Q=-inf). A row is non-trivial when >=2 "
    "feasible combinations differ in Q by > 1e-7 and the maximiser is not the first grid position of every "
    "choice variable; distinct_nontrivial counts distinct cases (digest of model+agents+arrays) containing at least one such row, the rows themselves are counted under counters.rows_nontrivial."
)
ASSUMPTIONS = [
    "float64, CPU backend, jit on (API default)",
    "NumPy reference (vlib/refmodel.py) and documented layout map are trusted",
    "which of several tolerance-equal maximisers is reported is not judged",
    "bounds as C01; <=8 agents",
]
TECHNIQUE = "property-based testing with a reference-model oracle: per-row recomputation of all Q-values (NumPy) for Hypothesis-generated models, agents and value arrays"
LEVEL_TEXT = (
    "Exploration: hundreds to thousands of generated (model, agents, value arrays) cases; every simulated row is "
    "re-derived by brute force. Catches index/unravel/segment/mask errors in the arg-max plumbing, which move the "
    "reported choice away from the maximiser."
)

PROFILE = Profile(name="sim", p_filter=0.7, force_sparse_and_dense_choice=0.35, max_periods=3,
                  max_points=30_000, p_near_tie=0.25)


@st.composite
def cases(draw, prof=None):
    inf_stream = prof is None and draw(st.integers(0, 5)) == 0
    if inf_stream:
        # models in which some last-period states have no feasible choice: the value arrays in use
        # contain -inf entries, and choices leading next to such states have Q = -inf
        from .c01 import PROFILE_INFEASIBLE

        prof = PROFILE_INFEASIBLE
    spec = draw(model_specs(prof or PROFILE))
    agents = draw(raw_agents(1, 8))
    if draw(st.integers(0, 9)) == 0:
        agents = expand_agents(agents, draw(st.integers(130, 300)))
    return {
        "spec": spec.to_json(),
        "agents": agents,
        "seed": draw(st.integers(0, 2**31 - 1)),
        "vf_mode": draw(st.sampled_from(["solution", "solution", "arbitrary"])),
        "vf_raw": draw(st.lists(st.integers(-300, 300), min_size=48, max_size=48)),
        "twin_first": draw(st.integers(0, 4)) == 0,
        "infeasible_ok": inf_stream,
    }


PROFILE_BIG = Profile(name="sim_big", p_filter=0.7, force_sparse_and_dense_choice=0.35, max_periods=4,
                      max_cont_states=3, max_cont_choices=3, max_cont_choice_nodes=7, max_points=150_000,
                      p_near_tie=0.2)


def strategy(tier):
    if tier == "thorough":
        return st.one_of(cases(), cases(), cases(PROFILE_BIG))
    return cases()


def arbitrary_arrays(ref, spec, raw):
    raw = np.asarray(raw, dtype=float) / 100.0
    out = []
    for t in range(spec.n_periods):
        shp = ref.expected_shape(t)
        n = int(np.prod(shp)) if shp else 1
        # raw noise tiled + a smooth trend so that neighbouring entries differ
        a = np.resize(raw, n) + 0.37 * np.sin(np.arange(n) * 0.7 + t)
        out.append(a.reshape(shp))
    return out


def check(case):
    import jax.numpy as jnp

    spec, ref, skip = prepare(case)
    dg = case_digest(case)
    if skip:
        return Outcome(status="skip", reason=skip, digest=dg)
    nonfinite = not all(np.isfinite(ref.to_lcm_layout(v, t)).all() for t, v in enumerate(ref.V))
    if nonfinite and not case.get("infeasible_ok"):
        return Outcome(status="skip", reason="nonfinite_reference", digest=dg)
    init = materialise_agents(spec, ref, case["agents"])
    n = len(case["agents"])
    classes = model_classes(spec, ref) + [f"vf_{case['vf_mode']}"] + (["value_arrays_with_minus_inf"] if nonfinite else [])
    if case.get("twin_first"):
        # first simulate a twin model (same names/signatures, other tables) in the same process
        from ..ir import twin

        tw = twin(spec)
        try:
            ftw = simcheck.get_functions(tw, targets=("solve_and_simulate",))
            simcheck.simulate(ftw, tw, init, case["seed"])
            classes.append("twin_model_simulated_first")
        except Exception:  # noqa: BLE001  (only a disturbance)
            classes.append("twin_model_failed")
    fns = simcheck.get_functions(spec, targets=("solve", "simulate"))
    params = simcheck.to_lcm_params(spec)
    if case["vf_mode"] == "arbitrary":
        vf = [jnp.asarray(a) for a in arbitrary_arrays(ref, spec, case["vf_raw"])]
    else:
        vf = call_lcm(fns["solve"], params)
    df = simcheck.simulate(fns, spec, init, case["seed"], vf_arr_list=vf)
    vfull = simcheck.vfull_list(ref, [np.asarray(a) for a in vf])
    msgs, cnt, nt_rows = simcheck.check_rows(spec, ref, df, vfull, n)
    if cnt["rows_offgrid"]:
        classes.append("offgrid_rows")
    out = Outcome(digest=dg, classes=classes, info=cnt)
    out.nontrivial = bool(nt_rows)
    out.info["nontrivial_rows"] = len(nt_rows)
    if msgs:
        out.status = "violation"
        out.reason = "; ".join(msgs[:3]) + (f" (+{len(msgs) - 3} more)" if len(msgs) > 3 else "")
        kind = "not_on_grid" if "not a grid node" in msgs[0] or "not a label" in msgs[0] else (
            "infeasible" if "infeasible" in msgs[0] else ("suboptimal" if "< max" in msgs[0] else "value"))
        out.bucket = f"sim_row:{kind}"
        return out
    s = sample_of(spec)
    s["initial_states"] = {k: v.tolist() for k, v in init.items()}
    s["vf_mode"] = case["vf_mode"]
    out.sample = s
    return out

"""C14 - pre-computed values on a grid are represented as a faithful function."""
from __future__ import annotations

import inspect
import itertools

import numpy as np
from hypothesis import strategies as st

from ..ir import grid_nodes, to_lcm_grid
from ..refmodel import coordinate, interp_multilinear
from ..runner import Outcome, call_lcm, case_digest

ID = "C14"
TITLE = "Pre-computed values on a grid are represented as a faithful function"
BUDGET = {"quick": 4000, "thorough": 60000}
CLEAR_CACHES_EVERY = 100
RULE = (
    "Cases = synthetic spaces for get_function_representation(space_info, name, input_prefix): 0-2 restricted "
    "discrete states with a random feasibility mask (>=1 True) and an indexer built by the harness (rank among True, "
    "-1 elsewhere), 0-2 unrestricted discrete states, 0-3 continuous states (linear/log, 2-7 nodes; a further axis re-uses the grid specification of an earlier one in 1 draw of 3), a random value "
    "array of the implied shape, prefix '' or 'next_'; evaluation points = grid nodes, interior points, collinear "
    "triples inside one cell, points up to one grid length outside linear grids (log grids only inside the range), "
    "feasible label combinations only, labels given as Python ints or as int64/int32/int16/int8/uint8 arrays (restricted states occasionally have 12 labels); evaluated plain, under jax.jit and under jax.vmap. Oracle: NumPy lookup + "
    "multilinear interpolation: stored value at nodes (1e-11*scale), formula value elsewhere (1e-9*scale), midpoint "
    "of a collinear triple = mean of the end points (1e-9*scale), and the signature is exactly the prefixed variable "
    "names + array name (+ indexer name). Non-trivial: >=1 restricted state whose mask has a False entry before a "
    "True one (rank != raw position) and >=1 continuous axis; distinct by case digest."
)
ASSUMPTIONS = ["float64, CPU", "NumPy corner-sum interpolation and closed-form grid coordinates as oracle",
               "SpaceInfo objects are built by the harness the way create_state_choice_space builds them (axis order: index axis, unrestricted discrete, continuous)"]
TECHNIQUE = "property-based testing against a NumPy lookup+interpolation reference over generated spaces, masks, arrays and evaluation points (plain / jit / vmap)"
LEVEL_TEXT = "Exploration: thousands of generated spaces x evaluation points compared with an independent NumPy implementation."

NAMES = ["zeta", "b_x", "Alpha", "k2", "mm", "q_y", "Wd"]


@st.composite
def cases(draw):
    # 1 case in 6: two restricted states with 12 labels each and one-byte labels (the 144 indexer
    # cells cannot be counted in the labels' own type)
    big_lookup = draw(st.integers(0, 999)) >= 850
    n_sp = 2 if big_lookup else draw(st.integers(0, 2))
    n_dd = draw(st.integers(0, 2))
    n_c = draw(st.integers(0 if n_sp + n_dd else 1, 3))
    names = draw(st.permutations(NAMES))[: n_sp + n_dd + n_c]
    # restricted states have 2-4 labels, occasionally 12 (12 x 12 = 144 indexer cells, more than
    # a one-byte label type can count)
    sp = [[n, 12 if big_lookup else draw(st.sampled_from([2, 3, 4, 2, 3, 4, 12, 12]))] for n in names[:n_sp]]
    dd = [[n, draw(st.integers(2, 4))] for n in names[n_sp:n_sp + n_dd]]
    cont = []
    for n in names[n_sp + n_dd:]:
        if cont and draw(st.integers(0, 2)) == 0:
            # the SAME grid specification as an earlier continuous variable (possibly not the
            # neighbouring one): equal grids on different axes
            src = cont[draw(st.integers(0, len(cont) - 1))]
            cont.append([n, *src[1:]])
            continue
        log = draw(st.booleans())
        k = draw(st.integers(2, 7))
        if log:
            a = draw(st.integers(20, 200)) / 100
            b = round(a * draw(st.integers(150, 2000)) / 100, 4)
            cont.append([n, "log", a, b, k])
        else:
            a = draw(st.integers(-200, 200)) / 100
            b = round(a + draw(st.integers(50, 600)) / 100, 2)
            cont.append([n, "lin", a, b, k])
    nm = int(np.prod([s for _, s in sp])) if sp else 0
    mask = draw(st.lists(st.integers(0, 2).map(lambda x: x > 0), min_size=nm, max_size=nm)) if nm else None
    npts = draw(st.integers(1, 6))
    pts = []
    for _ in range(npts):
        pts.append({
            "combo": draw(st.integers(0, 999)),
            "dd": [draw(st.integers(0, 3)) for _ in range(2)],
            "mode": [draw(st.sampled_from(["node", "in", "in", "out"])) for _ in range(3)],
            "j": [draw(st.integers(0, 6)) for _ in range(3)],
            "fr": [draw(st.integers(1, 999)) for _ in range(3)],
        })
    return {"sp": sp, "dd": dd, "cont": cont, "mask": mask, "prefix": draw(st.sampled_from(["", "next_"])),
            "vals": draw(st.lists(st.integers(-3000, 3000), min_size=64, max_size=64)), "points": pts,
            "exec": draw(st.sampled_from(["plain", "jit", "vmap"])), "tri_axis": draw(st.integers(0, 2)),
            "array_name": draw(st.sampled_from(["vf_arr", "values_name"])),
            "label_dtype": "int8" if big_lookup else draw(st.sampled_from([None, None, "int64", "int32", "int16", "int8", "uint8"]))}


def strategy(tier):
    return cases()


def check(case):
    import jax
    import jax.numpy as jnp
    from lcm.function_representation import get_function_representation
    from lcm.interfaces import IndexerInfo, SpaceInfo

    sp, dd, cont = case["sp"], case["dd"], case["cont"]
    dg = case_digest(case)
    pre = case["prefix"]
    arr_name = case["array_name"]
    # feasibility mask / indexer (harness-built, the documented meaning)
    if sp:
        shp = tuple(s for _, s in sp)
        mask = np.asarray(case["mask"], dtype=bool).reshape(shp)
        if not mask.any():
            mask[(0,) * len(shp)] = True
        indexer = np.full(shp, -1)
        indexer[mask] = np.arange(int(mask.sum()))
        lead = [int(mask.sum())]
    else:
        mask, indexer, lead = None, None, []
    shape = tuple(lead + [s for _, s in dd] + [c[4] for c in cont])
    n = int(np.prod(shape)) if shape else 1
    base = np.asarray(case["vals"], dtype=float) / 100.0
    arr = (np.resize(base, n) + 0.173 * np.arange(n) ** 0.5).reshape(shape)
    scale = max(1.0, float(np.abs(arr).max()))
    lookup = {nme: to_lcm_grid(("disc", s)) for nme, s in sp + dd}
    interp = {c[0]: to_lcm_grid((c[1], c[2], c[3], c[4])) for c in cont}
    info = SpaceInfo(
        axis_names=(["state_index"] if sp else []) + [nme for nme, _ in dd] + [c[0] for c in cont],
        lookup_info=lookup,
        interpolation_info=interp,
        indexer_infos=[IndexerInfo(axis_names=[nme for nme, _ in sp], name="state_indexer", out_name="state_index")] if sp else [],
    )
    f = call_lcm(get_function_representation, info, arr_name, input_prefix=pre)
    msgs = []
    exp_sig = {pre + nme for nme, _ in sp + dd} | {pre + c[0] for c in cont} | {arr_name} | ({"state_indexer"} if sp else set())
    if set(inspect.signature(f).parameters) != exp_sig:
        msgs.append(f"signature {sorted(inspect.signature(f).parameters)} != {sorted(exp_sig)}")
        return Outcome(status="violation", reason=msgs[0], bucket="funcrep:signature", digest=dg)
    helpers = {arr_name: jnp.asarray(arr)}
    if sp:
        helpers["state_indexer"] = jnp.asarray(indexer)
    combos = np.argwhere(mask) if sp else None
    gspecs = [(c[1], c[2], c[3], c[4]) for c in cont]

    def ref_eval(labels_sp, labels_dd, xs):
        sub = arr
        if sp:
            sub = sub[indexer[tuple(labels_sp)]]
        for lab in labels_dd:
            sub = sub[lab]
        if not cont:
            return float(sub)
        coords = [coordinate(g, x) for g, x in zip(gspecs, xs)]
        return float(interp_multilinear(sub, [np.asarray(c) for c in coords]))

    points = []  # (labels_sp, labels_dd, xs, kind)
    for p in case["points"]:
        lsp = [int(v) for v in combos[p["combo"] % len(combos)]] if sp else []
        ldd = [p["dd"][i] % s for i, (_, s) in enumerate(dd)]
        xs, kinds = [], []
        for i, g in enumerate(gspecs):
            nodes = grid_nodes(g)
            mode, j, fr = p["mode"][i], p["j"][i] % g[3], p["fr"][i] / 1000.0
            if mode == "node":
                xs.append(float(nodes[j]))
            elif mode == "in" or g[0] == "log":
                xs.append(float(nodes[0] + fr * (nodes[-1] - nodes[0])))
            else:
                span = float(nodes[-1] - nodes[0])
                xs.append(float(nodes[0] - fr * span) if j % 2 else float(nodes[-1] + fr * span))
            kinds.append(mode)
        points.append((lsp, ldd, xs, "node" if all(k == "node" for k in kinds) else "general"))
    # collinear triple inside one cell along one continuous variable
    triple = None
    if cont:
        ax = case["tri_axis"] % len(cont)
        lsp, ldd, xs, _ = points[0]
        nodes = grid_nodes(gspecs[ax])
        j = case["points"][0]["j"][ax] % (gspecs[ax][3] - 1)
        lo, hi = float(nodes[j]), float(nodes[j + 1])
        x0, x2 = lo + 0.1 * (hi - lo), lo + 0.9 * (hi - lo)
        tri = []
        for x in (x0, 0.5 * (x0 + x2), x2):
            xx = list(xs)
            xx[ax] = x
            tri.append((lsp, ldd, xx, "triple"))
        triple = (len(points), len(points) + 1, len(points) + 2)
        points += tri

    ldt = case.get("label_dtype")

    def as_label(lab):
        # labels as Python ints or as integer arrays of the given (possibly narrow) type
        return lab if ldt is None else jnp.asarray(lab, dtype=ldt)

    def kwargs_for(pt):
        lsp, ldd, xs, _ = pt
        kw = {}
        for (nme, _), lab in zip(sp, lsp):
            kw[pre + nme] = as_label(lab)
        for (nme, _), lab in zip(dd, ldd):
            kw[pre + nme] = as_label(lab)
        for c, x in zip(cont, xs):
            kw[pre + c[0]] = x
        return kw

    var_names = [pre + nme for nme, _ in sp + dd] + [pre + c[0] for c in cont]
    if case["exec"] == "vmap":
        def g(*a):
            return f(**dict(zip(var_names, a)), **helpers)
        n_lab = len(sp) + len(dd)
        cols = [jnp.asarray(np.asarray([np.asarray(kwargs_for(pt)[v]) for pt in points]),
                            dtype=(ldt if (ldt and k < n_lab) else None)) for k, v in enumerate(var_names)]
        got = np.asarray(call_lcm(jax.vmap(g), *cols), dtype=float)
    else:
        fn = f
        if case["exec"] == "jit":
            fn = jax.jit(f)
        got = np.asarray([float(call_lcm(fn, **kwargs_for(pt), **helpers)) for pt in points])
    for pt, gv in zip(points, got):
        e = ref_eval(pt[0], pt[1], pt[2])
        tol = (1e-11 if pt[3] == "node" else 1e-9) * scale * max(1.0, *(abs(x) for x in pt[2])) if pt[2] else 1e-12 * scale
        if not abs(gv - e) <= tol:
            msgs.append(
                f"labels {dict(zip([n for n, _ in sp + dd], pt[0] + pt[1]))} values {dict(zip([c[0] for c in cont], pt[2]))}: "
                f"function returns {gv!r}, lookup+multilinear interpolation gives {e!r} ({pt[3]} point, {case['exec']})"
            )
    if triple and not msgs:
        a, m, b = (got[i] for i in triple)
        if not abs(m - 0.5 * (a + b)) <= 1e-9 * scale:
            msgs.append(f"not linear inside a cell along {cont[case['tri_axis'] % len(cont)][0]}: f(mid)={m!r}, mean of ends={(a + b) / 2!r}")
    nt = False
    if sp and cont:
        flat = mask.reshape(-1)
        first_true = int(np.argmax(flat))
        nt = bool((~flat[: len(flat)]).any() and (np.flatnonzero(~flat).min() < np.flatnonzero(flat).max()))
    cl = [f"exec_{case['exec']}", f"n_cont_{len(cont)}", f"n_restricted_{len(sp)}"]
    if any(c[1] == "log" for c in cont):
        cl.append("log_grid")
    if ldt:
        cl.append(f"labels_{ldt}")
    if len({tuple(c[1:]) for c in cont}) < len(cont):
        cl.append("equal_grids_on_several_axes")
    out = Outcome(digest=dg, classes=cl, nontrivial=nt, info={"points": len(points)})
    if msgs:
        out.status = "violation"
        out.reason = "; ".join(msgs[:2])
        out.bucket = "funcrep:value"
        return out
    out.sample = {k: case[k] for k in ("sp", "dd", "cont", "mask", "prefix", "exec")}
    return out

"""C13 - the simulation result is a complete, correctly indexed panel."""
from __future__ import annotations

import numpy as np
from hypothesis import strategies as st

from .. import simcheck
from ..ir import Spec
from ..runner import Outcome, case_digest
from ..strategies import Profile, expand_agents, materialise_agents, model_specs, raw_agents
from .c01 import model_classes, prepare, sample_of

ID = "C13"
TITLE = "The simulation result is a complete, correctly indexed panel"
BUDGET = {"quick": 150, "thorough": 2000}
RULE = (
    "Cases = (supported model, 1-8 agents, 1-4 periods incl. 1 agent / 1 period, additional_targets = None or a "
    "random subset (possibly empty) of {utility, auxiliary functions, constraints, deterministic transition "
    "functions}, seed). Oracle: len(frame) = T*N; index equals MultiIndex.from_product([range(T), range(N)], "
    "names=(period, initial_state_id)) in that order; columns = {value, _period} + choices + states + targets "
    "without duplicates; _period equals the period level; every target column equals the NumPy evaluation of that "
    "model function at the row's states/choices/period/params (1e-9, booleans exact); row (t,i) belongs to agent i "
    "(period-0 rows equal the i-th supplied initial state, consecutive rows of i obey the law of motion). In half of the cases a TWIN model (same names and signatures, different table contents and parameter values) is simulated first in the same process, so that state leaking between models is exposed. "
    "One case in 16 (12 in the thorough tier) is a HUGE panel: the agents are expanded deterministically so that T*N exceeds 2**15 (or 2**16) rows by a remainder of 1-3000*T rows; the structural predicate runs on the whole frame, the row-level oracles on the first/last agents, the agents next to multiples of 2**15 rows and a regular stride. "
    "One case in 6 requests only targets that depend on the period alone (report_age(_period), report_wage(report_age)). Non-trivial: >=2 agents with pairwise distinct initial states, T>=2 and >=1 additional target (huge panels: >=2 distinct selected agents and >=1 target); distinct by "
    "case digest."
)
ASSUMPTIONS = [
    "float64, CPU; NumPy DAG evaluator trusted",
    "targets drawn only from the kinds the statement lists",
]
TECHNIQUE = "property-based testing: structural validity predicate on the frame plus reference evaluation of every additional-target column, over Hypothesis-generated models, batch sizes and target sets"
LEVEL_TEXT = "Exploration over generated models, batch sizes (incl. 1), horizons (incl. 1) and target subsets."

PROFILE = Profile(name="panel", min_periods=1, max_periods=4, p_filter=0.5, max_points=15_000, p_aux=0.8,
                  force_sparse_and_dense_choice=0.15)


PROFILE_HUGE = Profile(name="panel_huge", min_periods=1, max_periods=4, p_filter=0.5, max_points=600, p_aux=0.9,
                       max_disc_states=2, max_cont_states=1, max_disc_choices=1, max_cont_choices=1)
CHUNK = 2**15  # panels larger than this (with a remainder) are the "huge" class


@st.composite
def cases(draw, tier="quick"):
    huge = draw(st.integers(0, 15 if tier == "quick" else 11)) == 0
    spec = draw(model_specs(PROFILE_HUGE if huge else PROFILE))
    extra = {}
    if huge:
        # T*N exceeds 2**15 rows (or a multiple) by a remainder; agents are expanded in check()
        extra["huge"] = {"chunks": draw(st.sampled_from([1, 1, 2])), "extra": draw(st.integers(1, 3000))}
    return {
        **extra,
        "spec": spec.to_json(),
        "agents": draw(raw_agents(1, 8)),
        "seed": draw(st.integers(0, 2**31 - 1)),
        "targets_none": draw(st.integers(0, 5)) == 0,
        "target_picks": draw(st.lists(st.integers(0, 1), min_size=12, max_size=12)),
        "twin_first": draw(st.booleans()),
        "target_order": draw(st.permutations(list(range(12)))),
        "report_fn": draw(st.booleans()),
        # 1 case in 6: the requested targets depend on the period only (directly and through one
        # another), nothing else is requested
        "period_only_targets": draw(st.integers(0, 5)) == 0,
    }


def strategy(tier):
    return cases(tier)


def target_pool(spec):
    pool = []
    for n, f in spec.functions.items():
        if n.endswith("_filter"):
            continue
        if f.get("stochastic"):
            continue
        pool.append(n)
    return pool


def k6_case():
    spec = Spec(
        n_periods=2,
        states={"value": ("disc", 2)},
        choices={"a_1": ("disc", 2)},
        functions={
            "utility": {"args": ["value", "a_1"], "body": "TAB0[value, a_1]"},
            "next_value": {"args": ["a_1"], "body": "TAB1[a_1]"},
        },
        consts={"TAB0": np.array([[0.5, 1.5], [2.0, -1.0]]), "TAB1": np.array([1, 0])},
        params={"beta": 0.9, "utility": {}, "next_value": {}},
    )
    return {
        "spec": spec.to_json(),
        "agents": [{"combo": 0, "disc": [0, 0, 0, 0], "node": [0, 0, 0], "mode": ["on"] * 3, "frac": [1, 1, 1]},
                   {"combo": 0, "disc": [1, 0, 0, 0], "node": [0, 0, 0], "mode": ["on"] * 3, "frac": [1, 1, 1]}],
        "seed": 0,
        "targets_none": True,
        "target_picks": [0] * 12,
    }


def fixed_cases(tier):
    return [k6_case()]


def add_report_function(spec):
    """A model function that is only ever requested as a target and that is NOT element-wise (it
    reduces a stacked vector): a legitimate scalar function whose value on a whole panel column
    differs from its row-by-row value."""
    vs = list(spec.states)[:1] + list(spec.choices)[:1]
    if not vs:
        return spec
    new = spec.copy()
    terms = ", ".join(f"{0.5 + i} * {v}" for i, v in enumerate(vs))
    new.functions["report_total"] = {"args": vs, "body": f"xp.sum(xp.stack([{terms}, 0.25 + 0.0 * {vs[0]}]))"}
    new.params["report_total"] = {}
    return new


def add_period_functions(spec):
    """Model functions of the period only (an age and a quantity derived from it)."""
    new = spec.copy()
    new.functions["report_age"] = {"args": ["_period"], "body": "18.0 + 2.0 * _period"}
    new.functions["report_wage"] = {"args": ["report_age"], "body": "1.0 + 0.03 * (report_age - 18.0) ** 2"}
    new.params["report_age"] = {}
    new.params["report_wage"] = {}
    return new


def check(case):
    import pandas as pd

    if case.get("report_fn"):
        case = dict(case)
        case["spec"] = add_report_function(Spec.from_json(case["spec"])).to_json()
    if case.get("period_only_targets"):
        case = dict(case)
        case["spec"] = add_period_functions(Spec.from_json(case["spec"])).to_json()
    spec, ref, skip = prepare(case)
    dg = case_digest(case)
    if skip:
        return Outcome(status="skip", reason=skip, digest=dg)
    if not all(np.isfinite(ref.to_lcm_layout(v, t)).all() for t, v in enumerate(ref.V)):
        return Outcome(status="skip", reason="nonfinite_reference", digest=dg)
    agents = case["agents"]
    T = spec.n_periods
    if case.get("huge"):
        n_total = -(-CHUNK * case["huge"]["chunks"] // T) + case["huge"]["extra"]
        agents = expand_agents(agents, n_total)
    init = materialise_agents(spec, ref, agents)
    N = len(agents)
    pool = target_pool(spec)
    if case["targets_none"]:
        targets = None
    else:
        targets = [n for n, p in zip(pool, case["target_picks"]) if p]
        # the caller's order of the targets is arbitrary (not the declaration order)
        if case.get("report_fn") and "report_total" in spec.functions and "report_total" not in targets:
            targets.append("report_total")
        order = case.get("target_order", list(range(12)))
        targets = [t for _, t in sorted(zip(order, targets))]
    if case.get("period_only_targets"):
        targets = [["report_age"], ["report_wage", "report_age"], ["report_wage"]][case["seed"] % 3]
    classes = model_classes(spec, ref)
    if case.get("twin_first"):
        # history: first simulate a twin model (same names and signatures, other table contents
        # and parameter values) in the same process; it must not influence the model under test
        from ..ir import twin

        tw = twin(spec)
        try:
            ftw = simcheck.get_functions(tw, targets=("solve_and_simulate",))
            simcheck.simulate(ftw, tw, init, case["seed"], additional_targets=targets)
            classes.append("twin_model_simulated_first")
        except Exception:  # noqa: BLE001  (the twin may be unsupported; it is only a disturbance)
            classes.append("twin_model_failed")
    fns = simcheck.get_functions(spec, targets=("solve_and_simulate",))
    df = simcheck.simulate(fns, spec, init, case["seed"], additional_targets=targets)
    classes.append("targets_none" if targets is None else f"targets_{min(len(targets), 3)}")
    if case.get("period_only_targets"):
        classes.append("targets_depend_on_period_only")
    classes.append(f"agents_{'1' if N == 1 else 'n'}")
    classes.append(f"periods_{'1' if T == 1 else 'n'}")
    msgs = []
    bucket = "panel:structure"
    if "value" in spec.variables:
        # a model variable named like the value column cannot satisfy the column contract
        exp_cols_n = 2 + len(spec.variables) + len(targets or [])
        if len(df.columns) != exp_cols_n or not np.allclose(
            np.asarray(df["value"], dtype=float)[:N],
            [np.where(np.broadcast_to(ref.q_at({s: init[s][i] for s in spec.states}, 0, ref.V[1] if T > 1 else None)[1], tuple(len(g) for g in ref.cgrids)),
                      ref.q_at({s: init[s][i] for s in spec.states}, 0, ref.V[1] if T > 1 else None)[0], -np.inf).max() for i in range(N)],
        ):
            return Outcome(status="violation", digest=dg, classes=classes, bucket="panel:variable_named_value",
                           reason="a model variable named 'value' overwrites the value column of the frame")
    if len(df) != T * N:
        msgs.append(f"frame has {len(df)} rows, expected {T}*{N}")
    exp_index = pd.MultiIndex.from_product([range(T), range(N)], names=["period", "initial_state_id"])
    if not msgs and not (df.index.equals(exp_index) and list(df.index.names) == ["period", "initial_state_id"]):
        msgs.append("index is not the period-major product (period, initial_state_id)")
    exp_cols = ["value", "_period", *spec.choices, *spec.states, *(targets or [])]
    if sorted(df.columns) != sorted(exp_cols):
        msgs.append(f"columns {sorted(df.columns)} != expected {sorted(exp_cols)}")
    if not msgs:
        if not np.array_equal(np.asarray(df["_period"]), exp_index.get_level_values(0).to_numpy()):
            msgs.append("_period column differs from the period index level")
    cnt = {"target_cells": 0}
    df_full, init_full, N_full = df, init, N
    if case.get("huge") and not msgs:
        # row-level oracles run on a deterministic selection of agents: the first and the last
        # ones, the ones whose rows lie next to a multiple of 2**15 rows, and a regular stride
        sel = set(range(3)) | set(range(N - 6, N)) | set(range(0, N, max(1, N // 40)))
        for t in range(T):
            for kk in range(1, T * N // CHUNK + 1):
                for dlt in (-2, -1, 0, 1):
                    i = kk * CHUNK - t * N + dlt
                    if 0 <= i < N:
                        sel.add(i)
        sel = sorted(sel)
        df = df_full.loc[(slice(None), sel), :].copy()
        df.index = pd.MultiIndex.from_product([range(T), range(len(sel))], names=["period", "initial_state_id"])
        init = {s_: np.asarray(v)[sel] for s_, v in init_full.items()}
        N = len(sel)
        classes.append("huge_panel_over_32768_rows")
        cnt["panel_rows"] = T * N_full
    if not msgs and targets:
        bucket = "panel:target_value"
        for t in range(T):
            for i in range(N):
                row = df.loc[(t, i)]
                if not all(np.isfinite(float(row[v])) for v in spec.variables):
                    continue
                bad = simcheck.invalid_labels(spec, row, list(spec.variables))
                if bad:
                    msgs.append(f"(t={t}, agent={i}): " + "; ".join(bad[:3]))
                    continue
                for tg in targets:
                    e = ref.eval_at(tg, row, t)
                    g = row[tg]
                    cnt["target_cells"] += 1
                    e_arr = np.asarray(e)
                    if e_arr.dtype == bool:
                        ok = bool(g) == bool(e_arr)
                    else:
                        e_f, g_f = float(e_arr), float(g)
                        ok = (not np.isfinite(e_f) and (g_f == e_f or (np.isnan(e_f) and np.isnan(g_f)))) or abs(e_f - g_f) <= 1e-9 * max(1.0, abs(e_f))
                    if not ok:
                        msgs.append(f"(t={t}, agent={i}) target {tg}: frame {g!r}, function value {e!r}")
    if not msgs:
        bucket = "panel:row_assignment"
        m2, c2 = simcheck.check_law_of_motion(spec, ref, df, init, N)
        msgs += m2
        cnt.update(c2)
    out = Outcome(digest=dg, classes=classes, info=cnt)
    distinct_agents = len({tuple(float(init[s][i]) for s in spec.states) for i in range(N)})
    out.nontrivial = N >= 2 and distinct_agents == N and T >= 2 and bool(targets)
    if case.get("huge"):
        out.nontrivial = distinct_agents >= 2 and bool(targets)
    if msgs:
        out.status = "violation"
        out.reason = "; ".join(msgs[:3])
        out.bucket = bucket
        return out
    s = sample_of(spec)
    s["n_agents"] = N
    s["additional_targets"] = targets
    out.sample = s
    return out


import numpy as np  # noqa: E402  (used by k6_case at import time)

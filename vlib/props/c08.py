"""C08 - agents are simulated independently of each other."""
from __future__ import annotations

import numpy as np
from hypothesis import strategies as st

from .. import simcheck
from ..runner import Outcome, call_lcm, case_digest
from ..strategies import Profile, expand_agents, materialise_agents, model_specs, raw_agents
from .c01 import model_classes, prepare, sample_of

ID = "C08"
TITLE = "Agents are simulated independently of each other"
BUDGET = {"quick": 120, "thorough": 1500}
RULE = (
    "Cases = (supported model - deterministic with weight 3/4, else with stochastic transitions for the period-0 "
    "clause -, batch of 3-9 agents incl. deliberate duplicates (1 case in 8: a large batch of 130-300 agents; 1 case in 8: a cohort whose agents share the discrete states and differ in the continuous states only by a relative 1e-6..1e-8), a permutation, a subset, a duplication (agent j "
    "repeated k times), a reordering of the keys of initial_states, seed). Five simulations of the real code: "
    "A=batch, B=permuted batch, C=subset, D=with duplicates, E=reordered keys. Rows of the same agent must agree "
    "across runs (discrete exact, floats 1e-9: runs with other batch shapes are other compiled programs); a differing choice is accepted only if the C02 oracle finds both "
    "frames tolerance-optimal (counted as tie). For stochastic models only period-0 value/choices are compared. "
    "Non-trivial: >=3 distinct agents whose period-0 choices are not all equal; distinct by case digest."
)
ASSUMPTIONS = ["float64, CPU", "metamorphic relation between runs of the real code; C02 oracle only used to recognise ties"]
TECHNIQUE = "metamorphic property-based testing: permutation / subset / duplication / key-order invariance of the simulated panel over Hypothesis-generated models and batches"
LEVEL_TEXT = "Exploration over generated models and batch rewritings; 5 simulations per case compared agent by agent."

PROFILE_DET = Profile(name="indep_det", allow_stoch=False, max_periods=3, p_filter=0.7, max_points=15_000,
                      force_sparse_and_dense_choice=0.3, p_near_tie=0.2)
PROFILE_STO = Profile(name="indep_sto", p_stoch=0.7, max_periods=3, p_filter=0.6, max_points=15_000)


@st.composite
def cases(draw):
    sto = draw(st.integers(0, 3)) == 3
    spec = draw(model_specs(PROFILE_STO if sto else PROFILE_DET))
    agents = draw(raw_agents(3, 9))
    n = len(agents)
    # deliberate duplicates inside the batch
    if draw(st.booleans()):
        j = draw(st.integers(0, n - 1))
        k = draw(st.integers(0, n - 1))
        agents[k] = dict(agents[j])
    big = draw(st.integers(0, 7)) == 0
    if big:
        # large batch (130-300 agents): index arithmetic that only breaks beyond 255 rows etc.
        agents = expand_agents(agents, draw(st.integers(130, 300)))
        n = len(agents)
    near = (not big) and draw(st.integers(0, 7)) == 0
    return {
        "spec": spec.to_json(),
        "near_identical": near,
        "agents": agents,
        "seed": draw(st.integers(0, 2**31 - 1)),
        "perm": draw(st.permutations(list(range(n)))) if not big else list(range(n))[::-1],
        "subset": draw(st.lists(st.integers(0, n - 1), min_size=1, max_size=min(n, 40), unique=True)),
        "dup": [draw(st.integers(0, n - 1)), draw(st.integers(1, 3))],
        "key_perm": draw(st.permutations(list(range(len(spec.states))))),
    }


def strategy(tier):
    return cases()


def take(init, idx):
    return {k: np.asarray(v)[list(idx)] for k, v in init.items()}


def check(case):
    spec, ref, skip = prepare(case)
    dg = case_digest(case)
    if skip:
        return Outcome(status="skip", reason=skip, digest=dg)
    if not all(np.isfinite(ref.to_lcm_layout(v, t)).all() for t, v in enumerate(ref.V)):
        return Outcome(status="skip", reason="nonfinite_reference", digest=dg)
    init = materialise_agents(spec, ref, case["agents"])
    if case.get("near_identical"):
        # a cohort: every agent shares agent 0's discrete states and has continuous states that
        # differ from agent 0's only by a relative 1e-6 .. 1e-8 (not equal)
        n_ag = len(case["agents"])
        deltas = np.array([0.0, 1e-6, -1e-6, 3e-7, -2e-8, 5e-7, -4e-7, 1e-8, -7e-7])[:n_ag]
        for s_, g in spec.states.items():
            if g[0] == "disc":
                init[s_] = np.full(n_ag, init[s_][0])
            else:
                x0 = float(init[s_][0])
                base = x0 if x0 != 0 else 1.0
                init[s_] = np.asarray(x0 + base * deltas, dtype=float)
    N, T = len(case["agents"]), spec.n_periods
    stochastic = bool(spec.stochastic_states())
    fns = simcheck.get_functions(spec, targets=("solve", "simulate"))
    params = simcheck.to_lcm_params(spec)
    sol = call_lcm(fns["solve"], params)
    seed = case["seed"]

    def sim(ini):
        return simcheck.simulate(fns, spec, ini, seed, vf_arr_list=sol)

    maps = {
        "permuted": list(case["perm"]),
        "subset": list(case["subset"]),
        "duplicated": list(range(N)) + [case["dup"][0]] * case["dup"][1],
    }
    dfA = sim(init)
    frames = {"A": (dfA, list(range(N)))}
    for name, idx in maps.items():
        frames[name] = (sim(take(init, idx)), idx)
    keys = list(init)
    reordered = {keys[j]: init[keys[j]] for j in case["key_perm"]}
    frames["key_order"] = (sim(reordered), list(range(N)))
    classes = model_classes(spec, ref) + (["stochastic_model"] if stochastic else ["deterministic_model"])
    if case.get("near_identical"):
        classes.append("near_identical_cohort")
    cnt = {"row_comparisons": 0, "ties": 0}
    msgs = []
    cols = ["value", *spec.choices] if stochastic else list(dfA.columns)
    periods = [0] if stochastic else range(T)
    vfull = None
    for name, (df, idx) in frames.items():
        if name == "A":
            continue
        if sorted(df.columns) != sorted(dfA.columns):
            msgs.append(f"run {name}: columns differ")
            break
        cnt["row_comparisons"] += len(idx) * len(list(periods))
        if vfull is None:
            vfull = simcheck.vfull_list(ref, [np.asarray(a) for a in sol])
        m, ties = simcheck.explain_difference(
            spec, ref, dfA, df, vfull, [(orig, pos) for pos, orig in enumerate(idx)], periods=list(periods),
            float_tol=1e-9,  # runs with other batch shapes are other compiled programs: rounding may differ
        )
        cnt["ties"] += ties
        if m:
            msgs.append(f"run {name}: " + m[0] + " (positions: base run / this run)")
            break
    ch0 = {tuple(float(dfA.loc[(0, i)][c]) for c in spec.choices) for i in range(N)}
    distinct_agents = len({tuple(float(init[s][i]) for s in spec.states) for i in range(N)})
    out = Outcome(digest=dg, classes=classes, info=cnt)
    out.nontrivial = distinct_agents >= 3 and len(ch0) >= 2
    if msgs:
        out.status = "violation"
        out.reason = "; ".join(msgs[:2])
        out.bucket = "independence:" + msgs[0].split(":")[0].replace("run ", "")
        return out
    s = sample_of(spec)
    s["initial_states"] = {k: v.tolist() for k, v in init.items()}
    s["rewritings"] = {k: v for k, v in maps.items()}
    out.sample = s
    return out

"""C16 - a grid is either rejected or materialises exactly as specified."""
from __future__ import annotations

import math

import numpy as np
from hypothesis import strategies as st

from ..runner import Outcome, case_digest

ID = "C16"
TITLE = "A grid is either rejected or materialises exactly as specified"
BUDGET = {"quick": 40000, "thorough": 600000}
CLEAR_CACHES_EVERY = 2000
RULE = (
    "Constructor arguments come from a typed pool: python ints (incl. bool, 0, negatives, up to 2**53, a few beyond "
    "2**63), python floats (ordinary, tiny, huge up to 1e300, +-0.0, subnormal, nan, +-inf), NumPy scalars (float64/float32/float16, int64/int32) and JAX scalars, "
    "strings, None, complex; n_points from -2..300 plus bool/float/None/str; both continuous grid classes. Oracle: "
    "construction raises GridInitializationError, or to_jax() is a 1-D array of exactly n_points finite, strictly "
    "increasing values, first = start (1e-12 rel), last = stop for n>=2, constant first differences (linear) / "
    "constant ratios (log) within 1e-9 relative; any other exception is a violation. The spacing clauses are judged "
    "only where the spacing is representable ((stop-start)/(n-1) >= 2**-40 * max(|start|,|stop|)). Discrete grids: "
    "random category classes (dataclasses with int/float/bool/str/None/missing defaults, permuted and duplicated "
    "codes, non-dataclasses, zero fields): accepted exactly when the class is a dataclass with >=1 field whose "
    "values are numerically 0,1,2,... in declaration order, and then to_jax()/codes/categories reproduce the "
    "declaration; dataclass INSTANCES constructed with explicit values are judged on the values they carry. Non-trivial: an accepted grid with n>=3, or a rejected one with >=2 simultaneous faults; "
    "distinct by case digest."
)
ASSUMPTIONS = [
    "float64, CPU",
    "zero-field dataclasses and dataclass instances built with default arguments: only 'no other exception' and correctness of an accepted grid are judged (the statement does not decide acceptance)",
    "a dataclass INSTANCE constructed with explicit values: its field values are the values the instance carries (the reading pinned by the repository's own test_get_fields_instance); acceptance and array form are judged on them",
]
TECHNIQUE = "property-based testing of an accept-or-reject dichotomy with a validity predicate on the materialised array, over a typed pool of constructor arguments"
LEVEL_TEXT = "Exploration: tens of thousands of generated constructor argument combinations per run; each is either rejected with the documented error or checked element-wise."

FLOATS = [0.0, -0.0, 1.0, -1.0, 0.5, 2.5, 1e-3, 1e3, 1e-12, 1e12, 1e-300, 1e300, -1e300, 1e308, -1e308, 1.7e308, -1.7e308, 5e-324, 2.2250738585072014e-308,
          float("nan"), float("inf"), float("-inf"), 3.141592653589793, 100.0, 1e-9, 123456.789]
INTS = [0, 1, -1, 2, 5, 10, -7, 100, 2**31, 2**53, -(2**53), 2**63, 2**70, -(2**64), True, False]


def num():
    return st.one_of(
        st.sampled_from(FLOATS).map(lambda x: ["float", repr(x)]),
        st.integers(-10**6, 10**6).map(lambda x: ["float", repr(x / 1000.0)]),
        st.sampled_from(INTS).map(lambda x: ["bool" if isinstance(x, bool) else "int", repr(x)]),
        st.integers(-1000, 1000).map(lambda x: ["int", repr(x)]),
        st.sampled_from(FLOATS[:17]).map(lambda x: ["np.float64", repr(x)]),
        st.sampled_from([0, 1, 7]).map(lambda x: ["np.int64", repr(x)]),
        st.sampled_from([0.5, 2.0]).map(lambda x: ["jax", repr(x)]),
        st.sampled_from([0.1, 1.0, 0.3, 2.5, 100.0, 16777216.0]).map(lambda x: ["np.float32", repr(x)]),
        st.sampled_from([0.1, 1.0, 3.0]).map(lambda x: ["np.float16", repr(x)]),
        st.sampled_from([0, 1, 7, 16777216, 16777226]).map(lambda x: ["np.int32", repr(x)]),
    )


def junk():
    return st.sampled_from([["str", "'1.0'"], ["none", "None"], ["complex", "(1+2j)"], ["list", "[1.0]"]])


@st.composite
def case_cont(draw):
    sane = draw(st.integers(0, 2)) > 0
    if sane:
        a = draw(num())
        b = draw(num())
        n = draw(st.one_of(st.integers(-2, 12), st.sampled_from([2, 3, 50, 300])).map(lambda x: ["int", repr(x)]))
    else:
        a = draw(st.one_of(num(), junk()))
        b = draw(st.one_of(num(), junk()))
        n = draw(st.one_of(st.integers(-2, 300).map(lambda x: ["int", repr(x)]),
                           st.sampled_from([["bool", "True"], ["float", "3.0"], ["none", "None"], ["str", "'3'"], ["np.int64", "3"]])))
    return {"kind": "cont", "cls": draw(st.sampled_from(["lin", "log"])), "start": a, "stop": b, "n": n,
            "order_fix": draw(st.booleans())}


@st.composite
def case_disc(draw):
    shape = draw(st.sampled_from(["dataclass", "dataclass", "dataclass", "plain_class", "instance", "not_a_class",
                                  "instance_values"]))
    k = draw(st.integers(0, 5))
    vals = draw(_disc_vals(k))
    # class-level constants that are NOT dataclass fields (ClassVar / InitVar pseudo-fields)
    extras = draw(st.lists(st.sampled_from(["classvar_int", "classvar_next_code", "classvar_str", "initvar", "classvar_zero_first"]),
                           min_size=0, max_size=2, unique=True)) if draw(st.integers(0, 2)) == 0 else []
    out = {"kind": "disc", "shape": shape, "vals": vals, "extras": extras}
    if shape == "instance_values":
        # a dataclass INSTANCE that carries explicitly set values (other than the class defaults)
        out["inst_vals"] = draw(_disc_vals(k))
    return out


@st.composite
def _disc_vals(draw, k):
    mode = draw(st.sampled_from(["range", "range", "range_float", "range_bool", "perm", "dup", "jump", "offset", "mixed"]))
    if mode == "range":
        vals = [["int", repr(i)] for i in range(k)]
    elif mode == "range_float":
        vals = [["float", repr(float(i))] for i in range(k)]
    elif mode == "range_bool":
        vals = [["bool", repr(bool(i))] if i < 2 else ["int", repr(i)] for i in range(k)]
    elif mode == "perm":
        vals = [["int", repr(i)] for i in draw(st.permutations(list(range(k))))]
    elif mode == "dup":
        vals = [["int", repr(draw(st.integers(0, max(0, k - 2))))] for _ in range(k)]
    elif mode == "jump":
        vals = [["int", repr(2 * i)] for i in range(k)]
    elif mode == "offset":
        vals = [["int", repr(i + 1)] for i in range(k)]
    else:
        vals = [draw(st.sampled_from([["int", repr(i)], ["str", "'a'"], ["none", "None"], ["missing", ""], ["float", "nan"], ["float", repr(i + 0.5)], ["float", repr(float(i))]])) for i in range(k)]
    return vals


def strategy(tier):
    return st.one_of(case_cont(), case_cont(), case_disc())


def mk(v):
    import jax.numpy as jnp

    t, r = v
    if t == "float":
        return float(r)
    if t in ("int", "bool", "str", "none", "complex", "list"):
        return eval(r)  # noqa: S307
    if t == "np.float64":
        return np.float64(float(r))
    if t == "np.int64":
        return np.int64(int(r))
    if t == "np.float32":
        return np.float32(float(r))
    if t == "np.float16":
        return np.float16(float(r))
    if t == "np.int32":
        return np.int32(int(r))
    if t == "jax":
        return jnp.asarray(float(r))
    raise ValueError(t)


def check_cont(case):
    from lcm.exceptions import GridInitializationError
    from lcm.grids import LinspaceGrid, LogspaceGrid

    a, b, n = mk(case["start"]), mk(case["stop"]), mk(case["n"])
    if case["order_fix"] and isinstance(a, (int, float)) and isinstance(b, (int, float)):
        try:
            if a > b:
                a, b = b, a
        except Exception:  # noqa: BLE001
            pass
    cls = LogspaceGrid if case["cls"] == "log" else LinspaceGrid
    desc = f"{cls.__name__}(start={a!r}, stop={b!r}, n_points={n!r})"
    faults = 0
    for x in (a, b):
        faults += int(not isinstance(x, (int, float)) or (isinstance(x, float) and not math.isfinite(x)))
    faults += int(not isinstance(n, int) or n < 1)
    try:
        g = cls(start=a, stop=b, n_points=n)
    except GridInitializationError:
        return [], faults >= 2, "rejected", None
    except Exception as e:  # noqa: BLE001
        return [f"{desc}: construction raised {type(e).__name__}: {e}"], False, "other_exception", f"construct:{type(e).__name__}"
    try:
        arr = np.asarray(g.to_jax())
    except Exception as e:  # noqa: BLE001
        bucket = f"to_jax:{type(e).__name__}"
        if isinstance(e, OverflowError) and any(
            isinstance(x, int) and not isinstance(x, bool) and abs(x) >= 2**63 for x in (a, b)
        ):
            bucket = "python_int_beyond_int64"  # known finding K7a (identified by this predicate)
        return [f"{desc}: accepted, but to_jax() raised {type(e).__name__}: {str(e)[:120]}"], False, "accepted", bucket
    msgs = []
    bucket = "array"
    n_i = int(n)
    af, bf = float(a), float(b)
    # a bool bound makes JAX work in float32 (bool is not a floating type): float32 accuracy
    f32 = False
    etol = 1e-5 if f32 else 1e-12
    if n_i < 1:
        msgs.append(f"{desc}: accepted although n_points < 1")
        bucket = "n_points"
    elif arr.ndim != 1 or arr.shape[0] != n_i:
        msgs.append(f"{desc}: array form has shape {arr.shape}, expected ({n_i},)")
    elif not np.isfinite(arr).all():
        msgs.append(f"{desc}: array form contains non-finite values {arr[:5].tolist()}")
        bucket = "nonfinite"
    else:
        if not abs(arr[0] - af) <= etol * max(abs(af), 1e-300):
            msgs.append(f"{desc}: first element {arr[0]!r} != start")
            bucket = "endpoint"
        if n_i >= 2 and not abs(arr[-1] - bf) <= etol * max(abs(bf), 1e-300):
            msgs.append(f"{desc}: last element {arr[-1]!r} != stop")
            bucket = "endpoint"
        representable = n_i >= 2 and (bf - af) / (n_i - 1) >= 2.0**-40 * max(abs(af), abs(bf))
        if n_i >= 2 and representable:
            d = np.diff(arr)
            if not (d > 0).all():
                msgs.append(f"{desc}: array form is not strictly increasing")
                bucket = "not_increasing"
            elif n_i >= 3:
                if case["cls"] == "lin":
                    step = (bf - af) / (n_i - 1)
                    if not (np.abs(d - step) <= (1e-5 if f32 else 1e-9) * step + 64 * np.spacing(max(abs(af), abs(bf)))).all():
                        msgs.append(f"{desc}: spacing is not constant: {d[:4].tolist()}")
                        bucket = "spacing"
                else:
                    r = arr[1:] / arr[:-1]
                    ratio = (bf / af) ** (1.0 / (n_i - 1)) if af > 0 else float("nan")
                    # a bool bound makes jnp.log work in float32 (bool is not a floating type);
                    # such grids are only held to float32 accuracy
                    rtol = 1e-5 if f32 else 1e-9
                    if not (np.abs(r - ratio) <= rtol * ratio).all():
                        msgs.append(f"{desc}: ratios are not constant: {r[:4].tolist()} vs {ratio}")
                        bucket = "spacing"
    if msgs and (isinstance(a, bool) or isinstance(b, bool)):
        # known finding K7c is identified by this predicate: a bool bound makes JAX work in
        # float32 (jnp.log / jnp.linspace promote bool to float32 even with x64 enabled)
        return msgs, n_i >= 3, "accepted", "bool_bound"
    if msgs and n_i >= 1:
        # known finding K7b is identified by this predicate: some exact nonzero node of the grid
        # has magnitude below 1e-300, so that the arithmetic touches the subnormal range, which
        # XLA on CPU flushes to zero
        tiny = 2.2250738585072014e-308
        try:
            if n_i == 1:
                exact = [af]
            elif case["cls"] == "lin":
                exact = [af + i * ((bf - af) / (n_i - 1)) for i in range(n_i)]
            else:
                la, lb = math.log(af), math.log(bf)
                exact = [math.exp(la + i * ((lb - la) / (n_i - 1))) for i in range(n_i)]
        except (ValueError, OverflowError, ZeroDivisionError):
            exact = []
        if any(0 < abs(x) < 1e-300 for x in [*exact, af, bf]):
            bucket = "subnormal_nodes"
    return msgs, n_i >= 3, "accepted", bucket


def check_disc(case):
    import dataclasses

    from lcm.exceptions import GridInitializationError
    from lcm.grids import DiscreteGrid

    vals = case["vals"]
    fields = []
    for i, v in enumerate(vals):
        if v[0] == "missing":
            fields.append((f"f{i}", int))
        else:
            fields.append((f"f{i}", object, dataclasses.field(default=mk(v))))
    # fields without default must precede fields with defaults
    legal = True
    seen_default = False
    for f in fields:
        if len(f) == 3:
            seen_default = True
        elif seen_default:
            legal = False
    if not legal:
        fields = [f for f in fields if len(f) == 3]
        vals = [v for v in vals if v[0] != "missing"]
    shape = case["shape"]
    import typing

    extra_fields = []
    for e in case.get("extras", []):
        if e == "classvar_int":
            extra_fields.append(("n_categories", typing.ClassVar[int], 17))
        elif e == "classvar_next_code":
            extra_fields.append(("next_code", typing.ClassVar[int], len(fields)))
        elif e == "classvar_str":
            extra_fields.append(("label", typing.ClassVar[str], "status"))
        elif e == "initvar" and all(len(f) == 3 for f in fields):
            extra_fields.append(("scratch", dataclasses.InitVar[int], 5))
    if "classvar_zero_first" in case.get("extras", []):
        all_fields = [("version", typing.ClassVar[int], 0), *fields, *extra_fields]
    else:
        all_fields = [*fields, *extra_fields]
    inst_pyvals = None
    if shape == "instance_values":
        cat = dataclasses.make_dataclass("Cat", all_fields)
        iv = [v for v in case["inst_vals"]][: len(fields)]
        kwargs = {}
        for f, v in zip(fields, iv):
            if v[0] != "missing":
                kwargs[f[0]] = mk(v)
            elif len(f) == 2:
                kwargs[f[0]] = 0
        try:
            cat = cat(**kwargs)
        except Exception:  # noqa: BLE001
            return [], False, "skip", None
        inst_pyvals = [getattr(cat, f[0]) for f in fields]
    elif shape in ("dataclass", "instance"):
        cat = dataclasses.make_dataclass("Cat", all_fields)
        if shape == "instance":
            try:
                cat = cat(**{f[0]: 0 for f in fields if len(f) == 2})
            except Exception:  # noqa: BLE001
                return [], False, "skip", None
    elif shape == "plain_class":
        cat = type("Plain", (), {f"f{i}": mk(v) for i, v in enumerate(vals) if v[0] != "missing"})
    else:
        cat = [mk(v) for v in vals if v[0] != "missing"]
    pyvals = [None if v[0] == "missing" else mk(v) for v in vals]
    if inst_pyvals is not None:
        # the field values of an instance are the values it carries
        pyvals = inst_pyvals
    should = (
        shape in ("dataclass", "instance_values")
        and len(pyvals) >= 1
        and all(isinstance(x, (int, float)) and not isinstance(x, complex) for x in pyvals)
        and all(isinstance(x, (int, float)) and x == i for i, x in enumerate(pyvals))
    )
    desc = f"DiscreteGrid({shape} with field values {pyvals!r})"
    try:
        g = DiscreteGrid(cat)
    except GridInitializationError:
        if should:
            return [f"{desc}: rejected although the codes are 0..n-1 in declaration order"], False, "rejected", "wrongly_rejected"
        return [], len(pyvals) >= 2, "rejected", None
    except Exception as e:  # noqa: BLE001
        return [f"{desc}: raised {type(e).__name__}: {e}"], False, "other_exception", f"construct:{type(e).__name__}"
    undecided = shape == "instance" or (shape == "dataclass" and len(pyvals) == 0)
    if not should and not undecided:
        return [f"{desc}: accepted although it violates the rule"], False, "accepted", "wrongly_accepted"
    msgs = []
    try:
        arr = np.asarray(g.to_jax())
        if len(pyvals) and (arr.shape != (len(pyvals),) or not np.array_equal(arr, np.arange(len(pyvals)))):
            msgs.append(f"{desc}: array form {arr.tolist()} != codes 0..{len(pyvals) - 1}")
        if list(g.categories) != [f[0] for f in fields] or [float(c) for c in g.codes] != [float(i) for i in range(len(pyvals))]:
            msgs.append(f"{desc}: categories/codes {g.categories}/{g.codes} do not reproduce the declaration")
    except Exception as e:  # noqa: BLE001
        if not undecided:
            msgs.append(f"{desc}: accepted, but to_jax() raised {type(e).__name__}")
    return msgs, len(pyvals) >= 3, "accepted", "array"


def check(case):
    msgs, nt, verdict, bucket = (check_cont if case["kind"] == "cont" else check_disc)(case)
    if verdict == "skip":
        return Outcome(status="skip", reason="illegal_dataclass", digest=case_digest(case))
    out = Outcome(digest=case_digest(case), classes=[f"{case['kind']}_{verdict}"], nontrivial=nt)
    if msgs:
        out.status = "violation"
        out.reason = "; ".join(msgs[:2])
        out.bucket = f"grid:{case['kind']}:{bucket}"
        return out
    out.sample = case
    return out


REJECT_SKIPS = False

"""C10 - equivalent model specifications yield equal solutions."""
from __future__ import annotations

import numpy as np
from hypothesis import strategies as st

from ..ir import Spec, rename, reorder
from ..refmodel import Reference
from ..runner import Outcome, case_digest
from ..strategies import VAR_POOL, Profile, model_specs
from .c01 import lcm_solve, model_classes, prepare, sample_of

ID = "C10"
TITLE = "Equivalent model specifications yield equal solutions"
BUDGET = {"quick": 150, "thorough": 2500}
RULE = (
    "Cases = (supported base model, one rewriting): permute the declaration order of states / choices / functions; "
    "rename every variable by a random injection into the name pool (signatures, bodies, next_ prefixes and "
    "dependency lists rewritten consistently); rename the constraints, filters and auxiliary functions keeping the "
    "naming conventions (the suffix decides the role, e.g. a constraint called next_<state>_constraint); add an always-true constraint over random variables; add an "
    "always-true filter over a state and a choice (changes which variables are filter-restricted, hence the layout); "
    "move a boolean table over discrete variables from a constraint to a filter or from a filter to a constraint "
    "(kept only when both models are supported). Both models are solved by lcm; each solution is mapped to the "
    "canonical full-product layout with its own documented layout, axes are aligned by variable name, and the values "
    "must agree on every state that is in the space of both (1e-10 relative to max(1,|V|)); the rewritten model's "
    "array shapes must be those predicted by the layout rule. Non-trivial: the rewriting changes the "
    "restricted/unrestricted classification of some variable or the relative order of two state axes of different "
    "size; distinct by case digest."
)
ASSUMPTIONS = ["float64, CPU", "layout map (vlib/refmodel.py) trusted; supportedness of both models decided by the NumPy reference"]
TECHNIQUE = "metamorphic property-based testing: solution invariance under generated specification rewritings (permutation, renaming, vacuous restrictions, constraint<->filter)"
LEVEL_TEXT = "Exploration over generated (model, rewriting) pairs; two lcm solutions compared per case."

PROFILE = Profile(name="equiv", max_periods=3, p_filter=0.6, p_table_constraint=0.6, max_points=20_000,
                  filter_modes=("keep_all", "keep_all", "drop", "free"), free_constraints=0.0)

REWRITES = ["perm_states", "perm_states", "perm_choices", "perm_functions", "perm_all", "perm_all", "rename", "rename",
            "rename_functions", "rename_functions",
            "true_constraint", "true_filter", "true_filter", "constraint_to_filter", "constraint_to_filter",
            "filter_to_constraint"]


@st.composite
def cases(draw):
    spec = draw(model_specs(PROFILE))
    rw = draw(st.sampled_from(REWRITES))
    nv = len(spec.states) + len(spec.choices)
    return {
        "spec": spec.to_json(), "rewrite": rw,
        "perm_s": draw(st.permutations(list(range(len(spec.states))))),
        "perm_c": draw(st.permutations(list(range(len(spec.choices))))),
        "perm_f": draw(st.permutations(list(range(len(spec.functions))))),
        "names": draw(st.permutations(VAR_POOL))[:nv],
        "pick": [draw(st.integers(0, 99)) for _ in range(4)],
    }


def strategy(tier):
    return cases()


def rewrite(spec, case):
    """Returns (new spec, name mapping old->new) or None if the rewriting does not apply."""
    rw = case["rewrite"]
    ident = {v: v for v in spec.variables}
    S, C, F = list(spec.states), list(spec.choices), list(spec.functions)
    if rw in ("perm_states", "perm_all") or rw in ("perm_choices", "perm_functions"):
        so = [S[i] for i in case["perm_s"]] if rw in ("perm_states", "perm_all") else None
        co = [C[i] for i in case["perm_c"]] if rw in ("perm_choices", "perm_all") else None
        fo = [F[i] for i in case["perm_f"]] if rw in ("perm_functions", "perm_all") else None
        new = reorder(spec, so, co, fo)
        if new.to_json() == spec.to_json():
            return None
        return new, ident
    if rw == "rename":
        mapping = dict(zip(S + C, case["names"]))
        # two-step rename through temporaries to allow cycles
        tmp = {k: f"tmpvar{i}" for i, k in enumerate(mapping)}
        step1 = rename(spec, tmp)
        step2 = rename(step1, {tmp[k]: v for k, v in mapping.items()})
        if all(k == v for k, v in mapping.items()):
            return None
        return step2, mapping
    if rw == "rename_functions":
        # rename constraints, filters and auxiliary functions keeping the naming conventions
        # (the suffix decides the role: a constraint may be called next_<state>_constraint)
        fmap, k = {}, 0
        var_cycle = S + C
        for n in F:
            if n == "utility" or (n.startswith("next_") and n[5:] in spec.states):
                continue
            suffix = "_constraint" if n.endswith("_constraint") else "_filter" if n.endswith("_filter") else ""
            p_ = case["pick"][k % 4] + k
            if suffix:
                cands = [f"next_{var_cycle[p_ % len(var_cycle)]}{suffix}", f"no_debt_{k}{suffix}",
                         f"next_period_{k}{suffix}", f"utility_{k}{suffix}"]
            else:
                cands = [f"helper_{k}", f"{n}_renamed", f"net_{k}_value"]
            nn = cands[p_ % len(cands)]
            if nn in F or nn in fmap.values() or nn in var_cycle:
                nn = f"fn_{k}{suffix}"
            fmap[n] = nn
            k += 1
        if not fmap:
            return None
        return rename(spec, fmap), ident
    new = spec.copy()
    dvars = [v for v in spec.variables if spec.is_disc(v)]
    dstates = [s for s in S if spec.is_disc(s)]
    dchoices = [c for c in C if spec.is_disc(c)]
    if rw == "true_constraint":
        v = (S + C)[case["pick"][0] % len(S + C)]
        if spec.is_disc(v):
            new.consts["TABX"] = np.ones(spec.size(v), dtype=bool)
            new.functions["extra_constraint"] = {"args": [v], "body": f"TABX[{v}]"}
        else:
            new.functions["extra_constraint"] = {"args": [v], "body": f"xp.abs({v}) >= -1.0"}
        new.params["extra_constraint"] = {}
        return new, ident
    if rw == "true_filter":
        if not dstates:
            return None
        s = dstates[case["pick"][0] % len(dstates)]
        over = [s]
        if dchoices and case["pick"][1] % 3:
            over.append(dchoices[case["pick"][2] % len(dchoices)])
        new.consts["TABX"] = np.ones(tuple(spec.size(v) for v in over), dtype=bool)
        new.functions["extra_filter"] = {"args": over, "body": f"TABX[{', '.join(over)}]"}
        new.params["extra_filter"] = {}
        return new, ident
    if rw == "constraint_to_filter":
        if "tab_constraint" not in spec.functions:
            return None
        f = new.functions.pop("tab_constraint")
        new.params.pop("tab_constraint", None)
        new.functions["tab_filter"] = f
        new.params["tab_filter"] = {}
        # utility may mention the table (bonus term): unchanged, it is just an expression
        return new, ident
    if rw == "filter_to_constraint":
        fl = spec.filters()
        if not fl:
            return None
        n = fl[case["pick"][0] % len(fl)]
        f = new.functions.pop(n)
        new.params.pop(n, None)
        nn = n.replace("_filter", "_constraint")
        new.functions[nn] = f
        new.params[nn] = {}
        return new, ident
    return None


def check(case):
    spec, ref, skip = prepare(case)
    dg = case_digest(case)
    if skip:
        return Outcome(status="skip", reason=skip, digest=dg)
    r = rewrite(spec, case)
    if r is None:
        return Outcome(status="skip", reason="rewrite_not_applicable", digest=dg)
    spec2, mapping = r
    spec2b, ref2, skip2 = prepare({"spec": spec2.to_json()})
    if skip2:
        return Outcome(status="skip", reason="rewritten_" + skip2, digest=dg)
    solA = lcm_solve(spec, jit=True)
    solB = lcm_solve(spec2b, jit=True)
    msgs = []
    inv = {v: k for k, v in mapping.items()}
    orderA = ref.order
    orderB_in_A_names = [inv[n] for n in ref2.order]
    perm = [orderB_in_A_names.index(n) for n in orderA]
    for t in range(spec.n_periods):
        expB = ref2.expected_shape(t)
        if tuple(np.asarray(solB[t]).shape) != expB:
            msgs.append(f"t={t}: rewritten model has shape {np.asarray(solB[t]).shape}, layout rule predicts {expB}")
            continue
        if tuple(np.asarray(solA[t]).shape) != ref.expected_shape(t):
            msgs.append(f"t={t}: base model has shape {np.asarray(solA[t]).shape}, layout rule predicts {ref.expected_shape(t)}")
            continue
        A = ref.from_lcm_layout(solA[t], t)
        B = np.transpose(ref2.from_lcm_layout(solB[t], t), perm)
        both = np.isfinite(A) & np.isfinite(B)
        d = np.abs(A - B) > 1e-10 * np.maximum(1.0, np.abs(A))
        if (both & d).any():
            i = tuple(np.argwhere(both & d)[0])
            msgs.append(f"t={t}: state {dict(zip(orderA, i))}: base {A[i]!r}, rewritten ({case['rewrite']}) {B[i]!r}")
        # -inf patterns must agree where both are in the space
        inA, inB = ~np.isnan(A), ~np.isnan(B)
        if (inA & inB & (np.isneginf(A) != np.isneginf(B))).any():
            msgs.append(f"t={t}: -inf pattern differs")
    rA, rB = spec.restricted(), spec2b.restricted()
    changed_class = {inv.get(x, x) for x in rB[0] + rB[1]} != set(rA[0] + rA[1])
    sizesA = [(n, spec.size(n)) for n in ref.order]
    posB = {inv[n]: i for i, n in enumerate(ref2.order)}
    moved = any(
        (posB[a] - posB[b]) * (i - j) < 0 and sa != sb
        for i, (a, sa) in enumerate(sizesA) for j, (b, sb) in enumerate(sizesA) if i < j
    )
    out = Outcome(digest=dg, classes=[f"rw_{case['rewrite']}"] + model_classes(spec, ref), nontrivial=changed_class or moved or (case["rewrite"] == "rename_functions" and bool(spec.constraints() or spec.filters())))
    if msgs:
        out.status, out.reason, out.bucket = "violation", "; ".join(msgs[:3]), f"equiv:{case['rewrite']}"
        return out
    s = sample_of(spec)
    s["rewrite"] = case["rewrite"]
    out.sample = s
    return out

"""C15 - interpolation kernel and grid coordinates are exact inverses of the grids."""
from __future__ import annotations

import numpy as np
from hypothesis import strategies as st

from ..refmodel import interp_multilinear
from ..runner import Outcome, call_lcm, case_digest

ID = "C15"
TITLE = "Interpolation kernel and grid coordinates are exact inverses of the grids"
BUDGET = {"quick": 6000, "thorough": 150000}
CLEAR_CACHES_EVERY = 1000
RULE = (
    "Two generated sub-checks. (kernel) map_coordinates(input, coordinates) for rank 1-4, axis sizes 2-5, float "
    "and integer inputs, scalar or batched coordinates drawn from {integers in range, uniform in range, up to 2 "
    "cells outside}: compared with a NumPy corner-sum reference (lower index clipped to [0,n-2], unclipped "
    "weights), 1e-9 relative; integer coordinates must return the entries; in 3 cases of 7 the coordinates are whole numbers given in an integer type (int32 / int64 arrays, Python ints), inside and outside the index range. (grid) LinspaceGrid/LogspaceGrid over "
    "12 orders of magnitude of start/stop, n=2..200, values anywhere (linear) / inside the range (log), plus probes at relative distance 1e-6 and 3e-8 from nodes; for 2 linear-grid cases in 5 the values are whole numbers passed as int32/int64 arrays, scalar, "
    "vmapped and jitted: coordinate(node_i) = i for the first and the last nodes and for the stop bound itself (1e-9 abs), coordinates strictly increasing for values whose gap "
    "exceeds 1e-9 of the range (and never decreasing beyond 1e-12), and map_coordinates(nodes, coordinate(x)) = x "
    "(1e-9 relative to the range); all tolerances are widened by the floating-point resolution of the inputs, 16*eps*max(|start|,|stop|) in value units. Non-trivial: kernel: rank>=2 with a fractional coordinate and one outside the "
    "index range; grid: n>=3. Distinct by case digest."
)
ASSUMPTIONS = ["float64, CPU", "NumPy corner-sum interpolation (vlib/refmodel.interp_multilinear) as oracle"]
TECHNIQUE = "property-based testing: NumPy reference for the kernel, round-trip / monotonicity laws for grid coordinates, over generated shapes, coordinates and grid bounds"
LEVEL_TEXT = "Exploration: thousands of generated arrays/coordinates/grids per run against a reference and inverse laws."


@st.composite
def case_kernel(draw):
    rank = draw(st.integers(1, 4))
    shape = [draw(st.integers(2, 5)) for _ in range(rank)]
    n = int(np.prod(shape))
    batch = draw(st.sampled_from([0, 0, 1, 3, 7]))
    m = max(batch, 1)
    coords = []
    for ax in range(rank):
        row = []
        for _ in range(m):
            mode = draw(st.sampled_from(["int", "frac", "frac", "out"]))
            if mode == "int":
                row.append(float(draw(st.integers(0, shape[ax] - 1))))
            elif mode == "frac":
                row.append(draw(st.integers(0, (shape[ax] - 1) * 1000)) / 1000.0)
            else:
                row.append(draw(st.sampled_from([-1, 1])) * draw(st.integers(1, 2000)) / 1000.0
                           + (0 if draw(st.booleans()) else shape[ax] - 1))
        coords.append(row)
    return {"kind": "kernel", "shape": shape, "vals": draw(st.lists(st.integers(-4000, 4000), min_size=n, max_size=n)),
            "int_input": draw(st.integers(0, 4)) == 0, "batch": batch, "coords": coords,
            "int_coords": draw(st.sampled_from([None, None, None, None, "int32", "int64", "pyint"]))}


@st.composite
def case_grid(draw):
    log = draw(st.booleans())
    n = draw(st.sampled_from([2, 2, 3, 3, 4, 5, 7, 10, 33, 100, 200]))
    e = draw(st.integers(-6, 6))
    if log:
        a = draw(st.integers(1, 999)) / 100.0 * 10.0 ** e
        b = a * (1 + draw(st.integers(1, 100000)) / 100.0)
    else:
        a = draw(st.integers(-999, 999)) / 100.0 * 10.0 ** e
        b = a + draw(st.integers(1, 100000)) / 100.0 * 10.0 ** draw(st.integers(-6, 6))
    k = draw(st.integers(1, 8))
    us = [draw(st.integers(0, 10000)) / 10000.0 for _ in range(k)]
    outside = [draw(st.integers(-1000, 2000)) / 1000.0 for _ in range(3)]
    return {"kind": "grid", "log": log, "start": a, "stop": b, "n": n, "u": us, "outside": outside,
            "mode": draw(st.sampled_from(["scalar", "vmap", "jit"])),
            "int_values": draw(st.sampled_from([None, None, None, "int32", "int64"]))}


def strategy(tier):
    return st.one_of(case_kernel(), case_grid())


def check_kernel(case):
    import jax.numpy as jnp
    from lcm.ndimage import map_coordinates

    shape = tuple(case["shape"])
    arr = np.asarray(case["vals"], dtype=float).reshape(shape) / 16.0
    if case["int_input"]:
        arr = np.round(arr).astype(np.int64)
    coords = np.asarray(case["coords"], dtype=float)
    if case["int_input"]:
        coords = np.round(coords)  # integer-coordinate clause for integer arrays
    ic = case.get("int_coords")
    if ic:
        # whole-number coordinates (inside and outside the index range) given in an INTEGER type
        coords = np.round(coords)
    if case["batch"] == 0:
        cj = [jnp.asarray(c[0]) for c in coords]
        cn = [np.asarray(c[0]) for c in coords]
    else:
        cj = [jnp.asarray(c) for c in coords]
        cn = [np.asarray(c) for c in coords]
    if ic == "pyint" and case["batch"] == 0:
        cj = [int(c[0]) for c in coords]
    elif ic:
        dt_c = jnp.int32 if ic == "int32" else jnp.int64
        cj = [jnp.asarray(np.asarray(c).astype(np.int64), dtype=dt_c) for c in cn]
    got = np.asarray(call_lcm(map_coordinates, jnp.asarray(arr), cj))
    exp = interp_multilinear(arr.astype(float), cn)
    msgs = []
    if got.shape != np.shape(exp):
        msgs.append(f"shape {got.shape}, expected {np.shape(exp)}")
    else:
        sc = np.maximum(1.0, np.abs(exp))
        if case["int_input"]:
            ok = np.array_equal(got, np.round(exp).astype(np.int64))
        else:
            ok = bool((np.abs(got - exp) <= 1e-9 * np.maximum(sc, np.abs(arr).max())).all())
        if not ok:
            msgs.append(f"map_coordinates(shape {shape}, coords {coords.tolist()}) = {np.asarray(got).reshape(-1)[:4].tolist()}, multilinear reference {np.asarray(exp).reshape(-1)[:4].tolist()}")
    frac = (np.abs(coords - np.round(coords)) > 1e-9).any()
    out_rng = any(((coords[a] < 0) | (coords[a] > shape[a] - 1)).any() for a in range(len(shape)))
    return msgs, bool(len(shape) >= 2 and frac and out_rng)


def check_grid(case):
    import jax
    import jax.numpy as jnp
    from lcm.grids import LinspaceGrid, LogspaceGrid
    from lcm.ndimage import map_coordinates

    a, b, n = case["start"], case["stop"], case["n"]
    if case.get("int_values") and not case["log"] and b - a >= 8 and max(abs(a), abs(b)) < 2**30:
        # integer-typed values go together with integer (Python int) bounds in half of the cases
        if int(case["u"][0] * 10000) % 2 == 0:
            a, b = int(np.floor(a)), int(np.ceil(b))
    cls = LogspaceGrid if case["log"] else LinspaceGrid
    g = call_lcm(cls, start=a, stop=b, n_points=n)
    nodes = np.asarray(call_lcm(g.to_jax), dtype=float)
    rng = b - a
    xs = sorted(a + u * rng for u in case["u"])
    # probes very close to (but not on) nodes: a coordinate that snaps to the node there would
    # make the coordinate non-monotone and break the round trip
    for j in sorted({0, 1, n // 2, n - 2, n - 1} & set(range(n))):
        for delta in (1e-6, -1e-6, 3e-8, -3e-8):
            x = float(nodes[j]) * (1 + delta) if nodes[j] != 0 else delta * rng
            if nodes[0] <= x <= nodes[-1]:
                xs.append(x)
    xs = sorted(xs)
    if not case["log"]:
        xs = sorted(xs + [a + u * rng for u in case["outside"]])
    xs = np.asarray(xs, dtype=float)
    if case["log"]:
        xs = np.clip(xs, nodes[0], nodes[-1])
    int_dtype = None
    if case.get("int_values") and not case["log"] and rng >= 8 and max(abs(a), abs(b)) < 2**30:
        # the values are whole numbers supplied as an INTEGER-typed array
        xs = np.unique(np.round(xs))
        int_dtype = {"int32": np.int32, "int64": np.int64}[case["int_values"]]

    def coord(x):
        return g.get_coordinate(x)

    # nodes whose coordinate is checked: the first ones, the last ones, and the stop bound itself
    node_idx = sorted(set(list(range(min(n, 10))) + list(range(max(0, n - 3), n))))
    node_vals = np.concatenate([nodes[node_idx], [float(b)]])
    node_exp = np.asarray(node_idx + [n - 1], dtype=float)
    if case["mode"] == "scalar":
        cx = np.asarray([float(call_lcm(coord, jnp.asarray(x if int_dtype is None else int_dtype(x)))) for x in xs])
        cn = np.asarray([float(call_lcm(coord, jnp.asarray(x))) for x in node_vals])
    else:
        f = jax.vmap(coord)
        if case["mode"] == "jit":
            f = jax.jit(f)
        cx = np.asarray(call_lcm(f, jnp.asarray(xs if int_dtype is None else xs.astype(int_dtype))), dtype=float)
        cn = np.asarray(call_lcm(f, jnp.asarray(node_vals)))
    msgs = []
    desc = f"{cls.__name__}(start={a!r}, stop={b!r}, n_points={n})"
    # floating-point resolution of the inputs: a value near max(|a|,|b|) is only known up to
    # eps*max, i.e. up to eps*max/step in coordinate units (no implementation can do better)
    eps = np.finfo(float).eps
    big = max(abs(a), abs(b))
    if case["log"]:
        step_min = float(np.min(np.diff(nodes)))
    else:
        step_min = rng / (n - 1)
    res_c = 16 * eps * big / step_min
    res_x = 16 * eps * big
    if not (np.abs(cn - node_exp) <= 1e-9 * max(1, n) + res_c).all():
        msgs.append(f"{desc}: coordinates of the nodes {node_idx} and of stop are {cn.tolist()}")
    # monotone
    for i in range(len(xs) - 1):
        gap = xs[i + 1] - xs[i]
        if gap > 1e-9 * rng + res_x and not cx[i + 1] > cx[i]:
            msgs.append(f"{desc}: coordinate not strictly increasing: c({xs[i]!r})={cx[i]!r}, c({xs[i + 1]!r})={cx[i + 1]!r}")
            break
        if not cx[i + 1] >= cx[i] - 1e-12 * max(1.0, abs(cx[i])) * n - res_c:
            msgs.append(f"{desc}: coordinate decreases: c({xs[i]!r})={cx[i]!r} > c({xs[i + 1]!r})={cx[i + 1]!r}")
            break
    # round trip
    back = np.asarray(call_lcm(map_coordinates, jnp.asarray(nodes), [jnp.asarray(cx)]))
    tol = 1e-9 * rng + res_x + 1e-12 * big
    if not (np.abs(back - xs) <= tol).all():
        i = int(np.argmax(np.abs(back - xs)))
        msgs.append(f"{desc}: interpolating the grid at the coordinate of {xs[i]!r} returns {back[i]!r}")
    return msgs, n >= 3


def check(case):
    msgs, nt = (check_kernel if case["kind"] == "kernel" else check_grid)(case)
    cl = [case["kind"]] + ([("log" if case["log"] else "lin") + "_" + case["mode"]] if case["kind"] == "grid" else [])
    out = Outcome(digest=case_digest(case), classes=cl, nontrivial=nt)
    if msgs:
        out.status = "violation"
        out.reason = "; ".join(msgs[:2])
        out.bucket = f"interp:{case['kind']}" + (":log" if case.get("log") else "")
        return out
    out.sample = case
    return out

"""C17 - the state-choice space contains exactly the filter-passing combinations."""
from __future__ import annotations

import numpy as np
from hypothesis import strategies as st

from ..ir import Spec, grid_nodes, to_lcm_model
from ..refmodel import Reference
from ..runner import Outcome, call_lcm, case_digest
from ..strategies import Profile, model_specs
from .c01 import sample_of

ID = "C17"
TITLE = "The state-choice space contains exactly the filter-passing combinations"
BUDGET = {"quick": 1500, "thorough": 30000}
CLEAR_CACHES_EVERY = 200
RULE = (
    "Cases = (model with 1-2 table filters over 1-3 restricted discrete states, 0-3 restricted discrete choices and "
    "optionally the period, plus unrestricted discrete and continuous variables in shuffled declaration order; a "
    "period; jit_filter in {True, False}). create_state_choice_space(process_model(model), period, ...) is compared "
    "with a NumPy enumeration of the product of the restricted grids in canonical order (restricted states in "
    "declaration order, then restricted choices in declaration order): stored combination columns equal, row for "
    "row, the passing combinations in row-major order; the state indexer has the shape of the restricted-state "
    "product, holds the rank among combinations with >=1 passing choice and -1 elsewhere; segment_ids[j] = rank of "
    "the state part of row j, num_segments = number of ranked states; unrestricted discrete variables and continuous "
    "states are stored as their full grids (compared as a set: the statement fixes no order for them); in ~7 % of the cases an additional filter over the period ONLY opens or closes the whole space per period (closed: no stored combination, indexer all -1, no segment); axis names follow the layout contract. Non-trivial: "
    ">=1 restricted choice and some restricted-state combination fully excluded and some only partially; distinct by "
    "case digest."
)
ASSUMPTIONS = ["float64, CPU", "filters are boolean tables over discrete variables and the period (every such filter is some table)"]
TECHNIQUE = "property-based testing against a NumPy enumeration oracle over generated filter tables, variable sets, declaration orders and periods"
LEVEL_TEXT = "Exploration: thousands of generated (model, period) spaces per run compared field by field with a brute-force enumeration."

PROFILE = Profile(name="space", p_filter=1.0, filter_modes=("keep_all", "drop", "drop", "free", "free"), max_R=3, max_RC=3, min_RC=1,
                  max_periods=4, max_disc_states=4, max_disc_choices=4, max_points=10**9, p_aux=0.2, p_stoch=0.2)


@st.composite
def cases(draw):
    spec = draw(model_specs(PROFILE))
    return {"spec": spec.to_json(), "period": draw(st.integers(0, spec.n_periods - 1)),
            "jit_filter": draw(st.booleans()),
            # 1 case in 5: an additional filter that depends on the period ONLY (the whole space is
            # open in some periods and closed in others)
            "period_only_filter": ([bool(b >> i & 1) for b in [draw(st.integers(1, 14))] for i in range(4)]
                                   if draw(st.integers(0, 999)) >= 600 else None)}


def strategy(tier):
    return cases()


def check(case):
    from lcm.input_processing import process_model
    from lcm.state_space import create_state_choice_space

    spec = Spec.from_json(case["spec"])
    dg = case_digest(case)
    if case.get("period_only_filter"):
        spec.consts["TABOPEN"] = np.asarray(case["period_only_filter"][: spec.n_periods], dtype=bool)
        spec.functions["open_filter"] = {"args": ["_period"], "body": "TABOPEN[_period]"}
        spec.params["open_filter"] = {}
    ref = Reference(spec)
    t = case["period"]
    T = spec.n_periods
    sp_states, sp_choices, dd, cs, keep, mask = ref.layout(t)
    if not sp_states:
        return Outcome(status="skip", reason="no_restricted_state", digest=dg)
    # states must be non-auxiliary (enter utility/constraint/filter) for the last-period variant
    used = set()
    for n in ["utility"] + spec.filters() + spec.constraints():
        used |= spec.ancestors(n)
    if any(s not in used for s in spec.states):
        return Outcome(status="skip", reason="state_only_in_transitions", digest=dg)
    model = to_lcm_model(spec)
    im = call_lcm(process_model, model)
    space, info, indexers, segments = call_lcm(
        create_state_choice_space, im, t, is_last_period=(t == T - 1), jit_filter=case["jit_filter"]
    )
    msgs = []
    vars_ = sp_states + sp_choices
    combos = np.argwhere(mask)  # row-major
    got_names = list(space.sparse_vars)
    if got_names != vars_:
        msgs.append(f"stored combination variables {got_names} != canonical order {vars_}")
    else:
        for j, v in enumerate(vars_):
            col = np.asarray(space.sparse_vars[v])
            if col.shape != (len(combos),) or not np.array_equal(col, combos[:, j]):
                msgs.append(f"combination column {v}: {col.tolist()[:12]} != enumeration {combos[:, j].tolist()[:12]} (period {t})")
                break
    exp_indexer = np.full(keep.shape, -1)
    exp_indexer[keep] = np.arange(int(keep.sum()))
    if set(indexers) != {"state_indexer"}:
        msgs.append(f"state indexers {list(indexers)}")
    else:
        gi = np.asarray(indexers["state_indexer"])
        if gi.shape != exp_indexer.shape or not np.array_equal(gi, exp_indexer):
            msgs.append(f"state indexer {gi.tolist()} != {exp_indexer.tolist()} (period {t})")
    state_part = combos[:, : len(sp_states)]
    exp_seg = exp_indexer[tuple(state_part.T)] if len(combos) else np.zeros(0, dtype=int)
    if segments is None:
        msgs.append("no choice segments although variables are restricted")
    else:
        gs = np.asarray(segments["segment_ids"])
        if gs.shape != exp_seg.shape or not np.array_equal(gs, exp_seg) or int(segments["num_segments"]) != int(keep.sum()):
            msgs.append(f"segments {gs.tolist()[:12]} / {segments['num_segments']} != {exp_seg.tolist()[:12]} / {int(keep.sum())}")
    dchoices = [c for c in spec.choices if spec.choices[c][0] == "disc" and c not in sp_choices]
    exp_dense = dd + dchoices + cs
    # the statement fixes the ORDER only for the stored combinations; for the unrestricted
    # variables it requires that they are stored (as full grids), so compare as a set
    if sorted(space.dense_vars) != sorted(exp_dense):
        msgs.append(f"dense variables {list(space.dense_vars)} != unrestricted discrete variables + continuous states {exp_dense}")
    else:
        for v in exp_dense:
            g = np.asarray(space.dense_vars[v], dtype=float)
            e = grid_nodes(spec.variables[v]).astype(float)
            # (absolute part: a node that is 0 in exact arithmetic is only 0 up to rounding)
            if g.shape != e.shape or not np.allclose(g, e, rtol=1e-12, atol=1e-12 * float(np.abs(e).max())):
                msgs.append(f"dense grid {v} is not the full grid")
    exp_axes = ["state_index"] + dd + cs
    if list(info.axis_names) != exp_axes:
        msgs.append(f"axis names {info.axis_names} != {exp_axes}")
    cl = [f"jit_filter_{case['jit_filter']}", f"n_filters_{len(spec.filters())}"]
    if any("_period" in spec.functions[f]["args"] for f in spec.filters()):
        cl.append("period_dependent_filter")
    if t == T - 1:
        cl.append("last_period")
    if case.get("period_only_filter"):
        cl.append("period_only_filter_" + ("open" if case["period_only_filter"][t] else "closed"))
    partial = mask.reshape(int(np.prod(keep.shape)), -1)
    some_partial = bool((partial.any(axis=1) & ~partial.all(axis=1)).any())
    out = Outcome(digest=dg, classes=cl, nontrivial=bool(sp_choices) and bool((~keep).any()) and some_partial)
    if msgs:
        out.status = "violation"
        out.reason = "; ".join(msgs[:2])
        out.bucket = "space:" + msgs[0].split(" ")[0]
        return out
    s = sample_of(spec)
    s["period"] = t
    out.sample = s
    return out

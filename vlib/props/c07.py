"""C07 - the parameter template is complete and parameters are routed by function name."""
from __future__ import annotations

import copy

import numpy as np
from hypothesis import strategies as st

from .. import simcheck
from ..ir import Spec, to_lcm_model, to_lcm_params
from ..runner import Outcome, call_lcm, case_digest
from ..strategies import Profile, materialise_agents, model_specs, raw_agents
from .c01 import compare_solution, model_classes, prepare, sample_of

ID = "C07"
TITLE = "The parameter template is complete and parameters are routed by function name"
BUDGET = {"quick": 700, "thorough": 10000}
RULE = (
    "Cases = models in which utility, auxiliary functions, constraints and deterministic transitions carry 0-3 "
    "parameters with names from a 3-name pool (collisions across functions are the norm, all values distinct), "
    "stochastic states with shuffled dependency lists incl. the period, optionally an orphan function that nothing "
    "uses. Sub-check 'template' (cheap, 3/4 of the cases): the template returned by lcm must have exactly the keys "
    "beta + every function name (+ shocks iff a stochastic state exists); per function exactly the arguments that "
    "are neither variables, function names nor _period; shocks[state].shape = sizes of the dependencies in "
    "signature order (n_periods for _period) + number of labels; every leaf NaN; the same Model object is processed twice and both templates must satisfy this. Sub-check 'routing': the template "
    "is filled BY PATH from the spec's params, the model is solved (and simulated) and compared with the NumPy "
    "reference, which looks parameters up under the function's own name (1e-9) - with colliding names and distinct "
    "values any cross-talk changes V by O(1); changing the parameter of an orphan function must change nothing. "
    "Non-trivial: >=2 functions share a parameter name with different values (routing) / a stochastic state with >=2 "
    "dependencies or shared parameter names (template); distinct by case digest."
)
ASSUMPTIONS = ["float64, CPU", "NumPy reference routes parameters by function name by construction", "template compared structurally (key sets, shapes, NaN leaves)"]
TECHNIQUE = "property-based testing: structural oracle for the template derived from the specification, and differential testing against a by-name reference under deliberately colliding parameter names"
LEVEL_TEXT = "Exploration over generated signatures/parameter-name collisions/dependency orders."

PROFILE = Profile(name="params", every_function_has_params=True, p_aux=0.8, p_stoch=0.45, p_filter=0.4,
                  max_periods=3, max_points=20_000, p_budget=0.8)


@st.composite
def cases(draw):
    spec = draw(model_specs(PROFILE))
    kind = draw(st.sampled_from(["template", "template", "template", "routing"]))
    c = {"spec": spec.to_json(), "kind": kind, "orphan": draw(st.booleans()),
         "orphan_vals": [draw(st.integers(1, 50)) / 10, draw(st.integers(51, 99)) / 10]}
    if kind == "routing":
        c["agents"] = draw(raw_agents(1, 4))
        c["seed"] = draw(st.integers(0, 2**31 - 1))
        c["simulate"] = draw(st.booleans())
    return c


def strategy(tier):
    return cases()


def add_orphan(spec, val):
    spec = spec.copy()
    v = next(iter(spec.states))
    spec.functions["orphan_fn"] = {"args": [v, "scale", "k"], "body": f"scale * {v} + k"}
    spec.params["orphan_fn"] = {"scale": val, "k": -val}
    return spec


def expected_template(spec):
    names = set(spec.functions) | set(spec.states) | set(spec.choices) | {"_period"}
    exp = {"beta": None}
    for n, f in spec.functions.items():
        exp[n] = sorted(a for a in f["args"] if a not in names)
    shocks = {}
    for s in spec.stochastic_states():
        deps = spec.functions[f"next_{s}"]["args"]
        shocks[s] = tuple(spec.n_periods if d == "_period" else spec.size(d) for d in deps) + (spec.size(s),)
    return exp, shocks


def check_template(spec, tmpl):
    msgs = []
    exp, shocks = expected_template(spec)
    exp_keys = set(exp) | ({"shocks"} if shocks else set())
    if set(tmpl) != exp_keys:
        msgs.append(f"template keys {sorted(tmpl)} != {sorted(exp_keys)}")
        return msgs
    b = tmpl["beta"]
    if not np.isnan(float(b)):
        msgs.append("beta leaf is not NaN")
    for n, ps in exp.items():
        if n == "beta":
            continue
        if not isinstance(tmpl[n], dict) or sorted(tmpl[n]) != ps:
            msgs.append(f"template[{n!r}] = {sorted(tmpl[n]) if isinstance(tmpl[n], dict) else tmpl[n]!r}, expected parameters {ps}")
        elif not all(np.isnan(float(v)) for v in tmpl[n].values()):
            msgs.append(f"template[{n!r}] has non-NaN leaves")
    for s, shp in shocks.items():
        if set(tmpl["shocks"]) != set(shocks):
            msgs.append(f"shocks keys {sorted(tmpl['shocks'])} != {sorted(shocks)}")
            break
        a = np.asarray(tmpl["shocks"][s])
        if a.shape != shp:
            msgs.append(f"shocks[{s!r}].shape {a.shape} != {shp} (dependencies {spec.functions['next_' + s]['args']})")
        elif not np.isnan(a).all():
            msgs.append(f"shocks[{s!r}] has non-NaN entries")
    return msgs


def fill_by_path(tmpl, spec):
    import jax.numpy as jnp

    p = copy.deepcopy(tmpl)
    p["beta"] = float(spec.params["beta"])
    for n in spec.functions:
        for k in list(p[n]):
            p[n][k] = float(spec.params[n][k])
    if "shocks" in p:
        for s in list(p["shocks"]):
            p["shocks"][s] = jnp.asarray(np.asarray(spec.params["shocks"][s], dtype=float))
    return p


def collisions(spec):
    seen = {}
    for n, d in spec.params.items():
        if isinstance(d, dict) and n != "shocks":
            for k, v in d.items():
                seen.setdefault(k, set()).add(round(float(v), 9))
    return any(len(v) >= 2 for v in seen.values())


def check(case):
    from lcm.entry_point import get_lcm_function

    spec = Spec.from_json(case["spec"])
    if case["orphan"]:
        spec = add_orphan(spec, case["orphan_vals"][0])
    dg = case_digest(case)
    cl = [f"kind_{case['kind']}"] + (["orphan_function"] if case["orphan"] else [])
    coll = collisions(spec)
    if coll:
        cl.append("colliding_param_names")
    if case["kind"] == "template":
        from lcm.input_processing import process_model

        model = to_lcm_model(spec)
        tmpl = call_lcm(process_model, model).params
        msgs = check_template(spec, tmpl)
        if not msgs:
            # the same Model object processed a second time must give the same template
            tmpl2 = call_lcm(process_model, model).params
            msgs = [f"second processing of the same Model object: {m}" for m in check_template(spec, tmpl2)]
        _, shocks = expected_template(spec)
        nt = coll or any(len(s) >= 3 for s in shocks.values())
        out = Outcome(digest=dg, classes=cl + (["stochastic"] if shocks else []), nontrivial=nt)
        if msgs:
            out.status, out.reason, out.bucket = "violation", "; ".join(msgs[:3]), "params:template"
            return out
        out.sample = {"functions": {k: v["args"] for k, v in spec.functions.items()}, "template": {k: (sorted(v) if isinstance(v, dict) else "nan") for k, v in tmpl.items() if k != "shocks"}}
        return out
    # ---------------------------------------------------------------- routing
    case2 = {"spec": spec.to_json()}
    spec, ref, skip = prepare(case2)
    if skip:
        return Outcome(status="skip", reason=skip, digest=dg)
    if not all(np.isfinite(ref.to_lcm_layout(v, t)).all() for t, v in enumerate(ref.V)):
        return Outcome(status="skip", reason="nonfinite_reference", digest=dg)
    model = to_lcm_model(spec)
    solve, tmpl = call_lcm(get_lcm_function, model, targets="solve", debug_mode=False)
    msgs = check_template(spec, tmpl)
    bucket = "params:template"
    if not msgs:
        bucket = "params:routing_solve"
        params = fill_by_path(tmpl, spec)
        sol = [np.asarray(a) for a in call_lcm(solve, params)]
        msgs = compare_solution(spec, ref, sol)
        if not msgs and case["orphan"]:
            bucket = "params:orphan_changes_result"
            p2 = copy.deepcopy(params)
            p2["orphan_fn"]["scale"] = case["orphan_vals"][1]
            p2["orphan_fn"]["k"] = 17.0
            sol2 = [np.asarray(a) for a in call_lcm(solve, p2)]
            if not all(np.array_equal(a, b, equal_nan=True) for a, b in zip(sol, sol2)):
                msgs.append("changing the parameters of a function nothing depends on changes the solution")
        if not msgs and case.get("simulate"):
            bucket = "params:routing_simulate"
            sim, _ = call_lcm(get_lcm_function, model, targets="simulate", debug_mode=False)
            init = materialise_agents(spec, ref, case["agents"])
            import jax.numpy as jnp

            df = call_lcm(sim, params, initial_states={k: jnp.asarray(v) for k, v in init.items()},
                          vf_arr_list=[jnp.asarray(a) for a in sol], seed=case["seed"])
            n = len(case["agents"])
            vfull = simcheck.vfull_list(ref, sol)
            m1, _, _ = simcheck.check_rows(spec, ref, df, vfull, n)
            m2, _ = simcheck.check_law_of_motion(spec, ref, df, init, n)
            msgs = m1 + m2
            cl.append("simulated")
    out = Outcome(digest=dg, classes=cl + model_classes(spec, ref), nontrivial=coll)
    if msgs:
        out.status, out.reason, out.bucket = "violation", "; ".join(msgs[:3]), bucket
        return out
    s = sample_of(spec)
    out.sample = s
    return out

"""C18 - maximisers returned by the arg-max primitives attain the maximum."""
from __future__ import annotations

import itertools

import numpy as np
from hypothesis import strategies as st

from ..runner import Outcome, call_lcm, case_digest

ID = "C18"
TITLE = "Maximisers returned by the arg-max primitives attain the maximum"
BUDGET = {"quick": 4000, "thorough": 80000}
CLEAR_CACHES_EVERY = 400
RULE = (
    "Four generated sub-checks. (a) argmax(a, axis, initial=-inf, where) on arrays of rank 1-4 (axis sizes 1-4), "
    "every non-empty axis subset (increasing in 3 of 4 cases, otherwise in arbitrary order: the flat position then refers to the reduced axes in the order in which they were PASSED, i.e. the shape one would hand to unravel_index), masks incl. fully masked slices, values from a 3-element set (ties) or "
    "dyadic rationals, as float64 / int64 / int64 beyond 2**53, eager and jitted: the flat index must be the FIRST unmasked position attaining the masked "
    "maximum (0 if all masked) and the returned maximum must equal the NumPy masked maximum exactly. (b) the same "
    "with the array and mask COMPUTED INSIDE the same jitted, vmap_1d(productmap(...)) computation from generated "
    "smooth expressions (the situation in the simulation; lanes in which a combination lies on the knife edge of the mask expression, |margin| <= 1e-9, are not judged): index in range, unmasked, a[idx] >= max - 1e-12*scale, "
    "returned max == max (1e-12). (c) segment_argmax(data, sorted non-empty segments) rank 1-3, eager/jit and "
    "fused: the returned row lies in the segment and attains the segment maximum (1 case in 4 contains segments that are -inf throughout). (d) "
    "get_solve_discrete_problem(NONE) on generated variable_info frames: equals the brute-force maximum over all "
    "discrete choice combinations (dense axes + segment rows) of each state. Non-trivial: (a) mask has both values "
    "and there are >=2 ties at the maximum; (b) maximiser is not flat position 0 and the mask has both values; "
    "(c) >=2 segments with >=2 rows; (d) sparse rows and >=1 dense choice axis. Distinct by case digest."
)
ASSUMPTIONS = ["float64, CPU", "NumPy max/argmax as oracle", "segment ids sorted, every segment non-empty (documented precondition)"]
TECHNIQUE = "property-based testing against NumPy oracles, including arrays produced inside the same jitted/vmapped computation (fusion-sensitive)"
LEVEL_TEXT = (
    "Exploration: thousands of generated arrays/masks/axis subsets/segmentations per run, each compared with a NumPy "
    "oracle; the fused variant reproduces the XLA recomputation hazard that caused defect D1."
)

DYADIC = st.integers(-64, 64).map(lambda x: x / 8.0)
# near ties: values that differ by far less than any sensible tolerance but are not equal
NEAR = st.tuples(st.sampled_from([-1.5, 0.0, 2.25, 1000.0]), st.sampled_from([0.0, 0.0, 1e-6, -1e-6, 3e-8, 1e-9, -2e-10, 5e-12])).map(
    lambda t: t[0] + t[1] * max(1.0, abs(t[0]))
)


def values(draw, n):
    mode = draw(st.sampled_from(["ties", "dyadic", "near"]))
    el = {"ties": st.sampled_from([-1.5, 0.0, 2.25]), "dyadic": DYADIC, "near": NEAR}[mode]
    return draw(st.lists(el, min_size=n, max_size=n))



@st.composite
def case_a(draw):
    rank = draw(st.integers(1, 4))
    shape = [draw(st.integers(1, 4)) for _ in range(rank)]
    n = int(np.prod(shape))
    vals = values(draw, n)
    k = draw(st.integers(1, rank))
    axes = draw(st.lists(st.integers(0, rank - 1), min_size=k, max_size=k, unique=True))
    if draw(st.integers(0, 3)) > 0:
        axes = sorted(axes)  # the order lcm's own callers use; 1 case in 4 keeps an arbitrary order
    use_mask = draw(st.integers(0, 3)) > 0
    mask = draw(st.lists(st.integers(0, 3).map(lambda x: x > 0), min_size=n, max_size=n)) if use_mask else None
    if use_mask and draw(st.integers(0, 3)) == 0:
        # force a fully masked slice
        m = np.asarray(mask).reshape(shape)
        sl = [slice(None) if ax in axes else 0 for ax in range(rank)]
        m[tuple(sl)] = False
        mask = m.reshape(-1).tolist()
    return {"kind": "a", "shape": shape, "vals": vals, "axes": axes, "mask": mask,
            "jit": draw(st.booleans()), "int_axis": draw(st.booleans()), "dtype": draw(st.sampled_from(["float", "float", "float", "int", "bigint"]))}


EXPRS = [
    "{k0} * xp.log(c1 + 0.5) - {k1} * c1 * c1 + {k2} * xp.sqrt(xp.abs(w) + 0.1) * c1 + p",
    "{k0} * xp.log(c1 + 0.5) + {k1} * xp.log(c2 + 0.7) - {k2} * c1 * c2 + 0.3 * w * c2 + p * c1",
    "{k0} * xp.exp(-{k1} * c1 * w) + {k2} * c2 - 0.05 * c2 * c2 + p * w",
    "({k0} * c1 + {k1} * c2 + w) ** 0.5 * p - {k2} * c1 * c2",
]
MARGINS = ["w + {m0} - c1", "w + {m0} - c1 - {m1} * c2", "{m0} + 2.0 - c2 + 0.0 * c1"]


@st.composite
def case_b(draw):
    two = draw(st.booleans())
    return {
        "kind": "b",
        "expr": draw(st.sampled_from(EXPRS)).format(k0=draw(st.integers(1, 30)) / 10, k1=draw(st.integers(1, 30)) / 100, k2=draw(st.integers(1, 30)) / 10),
        "margin": draw(st.sampled_from(MARGINS)).format(m0=draw(st.integers(0, 20)) / 10, m1=draw(st.integers(1, 10)) / 10),
        "c1": [draw(st.integers(1, 50)) / 10, draw(st.integers(60, 300)) / 10, draw(st.integers(2, 9))],
        "c2": [draw(st.integers(1, 50)) / 10, draw(st.integers(60, 300)) / 10, draw(st.integers(1, 7))] if two else None,
        "w": [draw(st.integers(5, 400)) / 10 for _ in range(draw(st.integers(1, 9)))],
        "p": draw(st.integers(-20, 20)) / 10,
        "c1_log": draw(st.booleans()),
    }


@st.composite
def case_c(draw):
    nseg = draw(st.integers(1, 5))
    sizes = [draw(st.integers(1, 4)) for _ in range(nseg)]
    rows = sum(sizes)
    trailing = [draw(st.integers(1, 3)) for _ in range(draw(st.integers(0, 2)))]
    n = rows * int(np.prod(trailing)) if trailing else rows
    vals = values(draw, n)
    # 1 case in 4: whole segments (at every or at one trailing position) consist of -inf only
    # (a state without any feasible row); any row of such a segment attains its maximum
    inf_segs = draw(st.lists(st.integers(0, nseg - 1), min_size=1, max_size=2, unique=True)) if draw(st.integers(0, 3)) == 0 else []
    return {"kind": "c", "sizes": sizes, "trailing": trailing, "vals": vals,
            "mode": draw(st.sampled_from(["eager", "jit", "fused"])),
            "inf_segs": inf_segs, "inf_one_position": draw(st.booleans())}


@st.composite
def case_d(draw):
    n_ss = draw(st.integers(0, 2))
    n_sc = draw(st.integers(0, 2)) if n_ss else 0
    n_ds = draw(st.integers(0, 2))
    n_dc = draw(st.integers(0, 2))
    n_cs = draw(st.integers(0, 2))
    n_cc = draw(st.integers(0, 1))
    if n_ss + n_ds + n_cs == 0:
        n_ds = 1
    sizes = {}
    for pref, k in (("ss", n_ss), ("sc", n_sc), ("ds", n_ds), ("dc", n_dc), ("cs", n_cs), ("cc", n_cc)):
        for i in range(k):
            sizes[f"{pref}{i}"] = draw(st.integers(2, 3))
    # sparse mask over sparse states x sparse choices with >=1 passing choice for kept states
    shp = [sizes[f"ss{i}"] for i in range(n_ss)] + [sizes[f"sc{i}"] for i in range(n_sc)]
    nm = int(np.prod(shp)) if shp else 0
    mask = draw(st.lists(st.integers(0, 2).map(lambda x: x > 0), min_size=nm, max_size=nm)) if nm else None
    dense_shape = [sizes[f"ds{i}"] for i in range(n_ds)] + [sizes[f"dc{i}"] for i in range(n_dc)] + [sizes[f"cs{i}"] for i in range(n_cs)]
    return {"kind": "d", "counts": [n_ss, n_sc, n_ds, n_dc, n_cs, n_cc], "sizes": sizes, "mask": mask,
            "dense_shape": dense_shape, "vals_seed": draw(st.lists(DYADIC, min_size=40, max_size=40)),
            "last": draw(st.booleans())}


def strategy(tier):
    return st.one_of(case_a(), case_a(), case_b(), case_b(), case_c(), case_d())


# ---------------------------------------------------------------------------- checks
def check_a(case):
    import jax
    import jax.numpy as jnp
    from lcm.argmax import argmax

    shape = tuple(case["shape"])
    dt = float if case["dtype"] == "float" else int
    a = np.asarray(case["vals"], dtype=float).reshape(shape)
    if dt is int:
        a = np.round(a * 8).astype(np.int64)
        if case["dtype"] == "bigint":
            # integers beyond 2**53: neighbouring values are indistinguishable in float64
            a = a + np.int64(2**60)
    axes = tuple(case["axes"])
    mask = None if case["mask"] is None else np.asarray(case["mask"], dtype=bool).reshape(shape)
    axis_arg = axes[0] if (len(axes) == 1 and case["int_axis"]) else axes
    if len(axes) == len(shape) and case["int_axis"] and len(axes) > 1 and list(axes) == sorted(axes):
        axis_arg = None
    kw = {}
    if mask is not None:
        kw = {"where": jnp.asarray(mask), "initial": (-jnp.inf if dt is float else int(np.iinfo(np.int64).min))}
    fn = (lambda x, **k: argmax(x, axis=axis_arg, **k))
    if case["jit"]:
        fn = jax.jit(fn)
    idx, mx = call_lcm(fn, jnp.asarray(a), **kw)
    idx, mx = np.asarray(idx), np.asarray(mx)
    front = [ax for ax in range(len(shape)) if ax not in axes]
    at = np.transpose(a, front + list(axes)).reshape(tuple(shape[ax] for ax in front) + (-1,))
    mt = None if mask is None else np.transpose(mask, front + list(axes)).reshape(at.shape)
    exp_shape = at.shape[:-1]
    if idx.shape != exp_shape or mx.shape != exp_shape:
        return [f"output shapes {idx.shape}, {mx.shape}; expected {exp_shape}"], False
    msgs = []
    nt = False
    for pos in itertools.product(*[range(s) for s in exp_shape]):
        row = at[pos]
        m = np.ones(row.shape, bool) if mt is None else mt[pos]
        if m.any():
            emax = row[m].max()
            eidx = int(np.argmax(m & (row == emax)))
            if (~m).any() and int((m & (row == emax)).sum()) >= 2:
                nt = True
        else:
            emax = -np.inf if dt is float else np.iinfo(np.int64).min
            eidx = 0
        if int(idx[pos]) != eidx or not (mx[pos] == emax):
            msgs.append(f"slice {pos}: got (index {int(idx[pos])}, max {mx[pos]!r}), expected (index {eidx}, max {emax!r}); values {row.tolist()} mask {m.tolist()}")
    return msgs, nt


def _grid(spec, log):
    a, b, n = spec
    if n == 1:
        return np.array([a])
    return np.exp(np.linspace(np.log(a), np.log(b), n)) if log else np.linspace(a, b, n)


def check_b(case):
    import jax
    import jax.numpy as jnp
    from lcm.argmax import argmax
    from lcm.dispatchers import productmap, vmap_1d

    two = case["c2"] is not None
    ns = {"xp": jnp}
    args = "w, c1, c2, p" if two else "w, c1, p"
    expr, margin = case["expr"], case["margin"]
    if not two:
        expr = expr.replace("c2", "1.0")
        margin = margin.replace("c2", "1.0")
    exec(f"def inner({args}):\n    u = {expr}\n    f = ({margin}) >= 0\n    return u, f\n", ns)  # noqa: S102
    inner = ns["inner"]
    cvars = ["c1", "c2"] if two else ["c1"]
    pm = productmap(inner, cvars)

    kwpass = ", ".join(f"{a}={a}" for a in args.split(", "))
    ns2 = {"pm": pm, "argmax": argmax, "jnp": jnp}
    exec(  # noqa: S102
        f"def ccv({args}):\n    u, f = pm({kwpass})\n    i, m = argmax(u, where=f, initial=-jnp.inf)\n    return i, m, u, f\n",
        ns2,
    )
    ccv = ns2["ccv"]
    fn = jax.jit(vmap_1d(ccv, ["w"]))
    kw = {"w": jnp.asarray(case["w"]), "c1": jnp.asarray(_grid(case["c1"], case["c1_log"])), "p": case["p"]}
    if two:
        kw["c2"] = jnp.asarray(_grid(case["c2"], False))
    idx, mx, u, f = (np.asarray(x) for x in call_lcm(fn, **kw))
    msgs, nt = [], False
    # feasibility margins in NumPy: a lane in which some combination lies on the knife edge of the
    # constraint (|margin| at rounding level) has no well-defined mask - XLA may evaluate the fused
    # mask expression twice with different rounding - and is not judged
    g1 = _grid(case["c1"], case["c1_log"])
    g2 = _grid(case["c2"], False) if two else np.array([1.0])
    C1, C2 = np.meshgrid(g1, g2, indexing="ij")
    for i in range(len(case["w"])):
        ui, fi = u[i].reshape(-1), f[i].reshape(-1)
        if not np.isfinite(ui).all():
            continue
        w_i = float(case["w"][i])
        mar = eval(margin, {"xp": np, "w": w_i, "c1": C1, "c2": C2, "p": case["p"]})  # noqa: S307
        if np.abs(np.asarray(mar, dtype=float)).min() <= 1e-9 * max(1.0, abs(w_i), float(np.abs(C1).max()), float(np.abs(C2).max())):
            continue
        j = int(idx[i])
        if not (0 <= j < ui.size):
            msgs.append(f"lane {i}: index {j} out of range")
            continue
        if fi.any():
            emax = ui[fi].max()
            sc = max(1.0, abs(emax))
            if not fi[j]:
                msgs.append(f"lane {i}: index {j} is masked")
            elif not ui[j] >= emax - 1e-12 * sc:
                msgs.append(f"lane {i} (w={case['w'][i]}): index {j} has value {ui[j]!r} < masked max {emax!r} at {int(np.argmax(np.where(fi, ui, -np.inf)))}")
            if not abs(mx[i] - emax) <= 1e-12 * sc:
                msgs.append(f"lane {i}: returned max {mx[i]!r} != {emax!r}")
            if int(np.argmax(np.where(fi, ui, -np.inf))) != 0 and (~fi).any():
                nt = True
        else:
            if j != 0 or mx[i] != -np.inf:
                msgs.append(f"lane {i}: all masked but got index {j}, max {mx[i]!r}")
    return msgs, nt


def check_c(case):
    import jax
    import jax.numpy as jnp
    from lcm.argmax import segment_argmax

    sizes = case["sizes"]
    rows = sum(sizes)
    shape = (rows, *case["trailing"])
    data = np.asarray(case["vals"], dtype=float).reshape(shape)
    ids = np.repeat(np.arange(len(sizes)), sizes)
    nseg = len(sizes)
    if case.get("inf_segs") and case["mode"] != "fused":
        for sg in case["inf_segs"]:
            sel = (ids == sg,) + ((0,) * len(case["trailing"]) if case.get("inf_one_position") and case["trailing"] else ())
            data[sel] = -np.inf
    if case["mode"] == "eager":
        out = call_lcm(segment_argmax, jnp.asarray(data), jnp.asarray(ids), nseg)
        dd = data
    elif case["mode"] == "jit":
        out = call_lcm(jax.jit(segment_argmax, static_argnums=2), jnp.asarray(data), jnp.asarray(ids), nseg)
        dd = data
    else:
        def fused(x, y):
            d = jnp.log(jnp.abs(x) + 0.5) * y - 0.1 * x * x + jnp.sqrt(jnp.abs(x * y) + 0.1)
            i, m = segment_argmax(d, jnp.asarray(ids), nseg)
            return i, m, d
        y = 1.0 + 0.37 * np.arange(data.size).reshape(shape) % 3
        i_, m_, d_ = call_lcm(jax.jit(fused), jnp.asarray(data), jnp.asarray(y))
        out = (i_, m_)
        dd = np.asarray(d_)
    am, mx = np.asarray(out[0]), np.asarray(out[1])
    exp_shape = (nseg, *case["trailing"])
    if am.shape != exp_shape or mx.shape != exp_shape:
        return [f"output shapes {am.shape}, {mx.shape}; expected {exp_shape}"], False
    tol = 0.0 if case["mode"] != "fused" else 1e-12
    msgs = []
    start = 0
    for s, n in enumerate(sizes):
        for pos in itertools.product(*[range(k) for k in case["trailing"]]):
            seg = dd[(slice(start, start + n), *pos)]
            emax = seg.max()
            r = int(am[(s, *pos)])
            sc = max(1.0, abs(emax))
            if not (start <= r < start + n):
                msgs.append(f"segment {s} pos {pos}: returned row {r} outside the segment rows [{start},{start + n})")
            elif np.isneginf(emax):
                pass  # every row of the segment attains the maximum -inf
            elif not dd[(r, *pos)] >= emax - tol * sc:
                msgs.append(f"segment {s} pos {pos}: row {r} has {dd[(r, *pos)]!r} < segment max {emax!r}")
            if np.isneginf(emax):
                if not np.isneginf(mx[(s, *pos)]):
                    msgs.append(f"segment {s} pos {pos}: returned max {mx[(s, *pos)]!r} != -inf")
            elif not abs(mx[(s, *pos)] - emax) <= tol * sc:
                msgs.append(f"segment {s} pos {pos}: returned max {mx[(s, *pos)]!r} != {emax!r}")
        start += n
    nt = sum(1 for n in sizes if n >= 2) >= 2
    return msgs, nt


def check_d(case):
    import jax.numpy as jnp
    import pandas as pd
    from lcm.discrete_problem import get_solve_discrete_problem
    from lcm.typing import ShockType

    n_ss, n_sc, n_ds, n_dc, n_cs, n_cc = case["counts"]
    sizes = case["sizes"]
    rows = []
    for pref, k, st_, ch, cont, sp in (
        ("ss", n_ss, True, False, False, True), ("sc", n_sc, False, True, False, True),
        ("ds", n_ds, True, False, False, False), ("dc", n_dc, False, True, False, False),
        ("cs", n_cs, True, False, True, False), ("cc", n_cc, False, True, True, False),
    ):
        for i in range(k):
            rows.append({"name": f"{pref}{i}", "is_state": st_, "is_choice": ch, "is_continuous": cont,
                         "is_discrete": not cont, "is_sparse": sp, "is_dense": not sp,
                         "is_stochastic": False, "is_auxiliary": False})
    vi = pd.DataFrame(rows).set_index("name")
    segs = None
    lead = []
    seg_of_row = None
    if n_ss:
        shp = [sizes[f"ss{i}"] for i in range(n_ss)] + [sizes[f"sc{i}"] for i in range(n_sc)]
        m = np.asarray(case["mask"], dtype=bool).reshape(shp)
        m[(0,) * len(shp)] = True
        m2 = m.reshape(int(np.prod(shp[:n_ss])), -1)
        keep = m2.any(axis=1)
        seg_of_row = np.concatenate([np.full(int(m2[s].sum()), r) for r, s in enumerate(np.flatnonzero(keep))])
        segs = {"segment_ids": jnp.asarray(seg_of_row), "num_segments": int(keep.sum())}
        lead = [len(seg_of_row)]
    shape = tuple(lead + case["dense_shape"])
    n = int(np.prod(shape))
    base = np.asarray(case["vals_seed"], dtype=float)
    vals = (np.resize(base, n) + 0.125 * (np.arange(n) % 7)).reshape(shape)
    fn = call_lcm(get_solve_discrete_problem, random_utility_shock_type=ShockType.NONE, variable_info=vi,
                  is_last_period=case["last"], choice_segments=segs)
    got = np.asarray(call_lcm(fn, jnp.asarray(vals), params={}))
    # brute force: axes = [rows?] ds.. dc.. cs..
    off = 1 if n_ss else 0
    dc_axes = tuple(range(off + n_ds, off + n_ds + n_dc))
    exp = vals.max(axis=dc_axes) if dc_axes else vals
    if n_ss:
        exp = np.stack([exp[seg_of_row == r].max(axis=0) for r in range(int(seg_of_row.max()) + 1)])
    if got.shape != exp.shape:
        return [f"shape {got.shape}, expected {exp.shape}"], False
    if not np.array_equal(got, exp):
        return [f"values differ from the brute-force maximum over all discrete choices: got {got.reshape(-1)[:6].tolist()} expected {exp.reshape(-1)[:6].tolist()}"], False
    return [], bool(n_ss and n_dc)


def check(case):
    fn = {"a": check_a, "b": check_b, "c": check_c, "d": check_d}[case["kind"]]
    msgs, nt = fn(case)
    out = Outcome(digest=case_digest(case), classes=[f"kind_{case['kind']}" + (f"_{case['mode']}" if case["kind"] == "c" else "")], nontrivial=nt)
    if msgs:
        out.status = "violation"
        out.reason = "; ".join(msgs[:3])
        out.bucket = f"argmax:{case['kind']}" + (f":{case['mode']}" if case["kind"] == "c" else "")
        return out
    out.sample = {k: v for k, v in case.items() if k not in ("vals_seed",)}
    return out

"""C09 - generated functions are pure: results depend only on the arguments of the call."""
from __future__ import annotations

import copy
import inspect
import json
import os
import subprocess
import sys
import tempfile

import numpy as np
from hypothesis import strategies as st

from .. import simcheck
from ..ir import Spec, to_lcm_model, to_lcm_params
from ..runner import ROOT, Outcome, call_lcm, case_digest
from ..strategies import Profile, materialise_agents, model_specs, raw_agents
from .c01 import model_classes, prepare, sample_of

ID = "C09"
TITLE = "Generated functions are pure: results depend only on the arguments of the call"
BUDGET = {"quick": 48, "thorough": 480}
RULE = (
    "Cases = call histories on one set of generated functions: a supported model, 2-3 parameter variants (same "
    "structure, different values; leaves as python floats / NumPy scalars / JAX arrays), 2 batches of initial "
    "states, 2 seeds and a generated sequence of 4-14 operations from {solve(p), simulate(p, init, seed, "
    "vf_arr_list=solve(p)), solve_and_simulate(p, init, seed) - both with additional_targets = none or one of two fixed lists of model functions -, rebuild (call get_lcm_function again and switch to "
    "the new objects), poison (overwrite the user's params object that was passed to the previous call), twin (build, solve and simulate ANOTHER model with the same names/signatures but other table contents in between), reuse_dict (overwrite ONE long-lived params dict in place with another variant's values and pass the same object again)}. Model: a "
    "memo keyed by the VALUES of the arguments holding the first result; after every operation the result must "
    "equal the memo entry (floats 1e-12, discrete exact, identical leaf values for the three leaf types), the user's "
    "Model (functions dict, signatures, grids) and the params object and the vf_arr_list passed in must be unchanged (deep structural "
    "equality incl. leaf types). For 1 in 4 histories the solution and a simulation are recomputed in fresh "
    "subprocesses under two other PYTHONHASHSEED values and compared (1e-12). Non-trivial: >=2 distinct parameter "
    "variants interleaved (A, B, A) and >=1 rebuild; distinct by case digest."
)
ASSUMPTIONS = ["float64, CPU", "metamorphic relation between calls of the real code; no reference model involved",
               "cross-process clause: subprocesses started by the harness with PYTHONHASHSEED set explicitly"]
TECHNIQUE = "model-based property-based testing of call histories: generated operation sequences against a memo model keyed by argument values, plus cross-process / hash-seed differential runs"
LEVEL_TEXT = "Exploration over generated call histories (interleaved parameter sets, rebuilds, leaf types) and hash seeds."
WORKERS = 16

PROFILE = Profile(name="pure", max_periods=3, p_filter=0.7, min_RC=1, max_points=8_000, max_cont_state_nodes=4,
                  max_cont_choice_nodes=4, p_stoch=0.4, every_function_has_params=True)


PROFILE_2C = Profile(name="pure_2cont", max_periods=3, p_filter=0.5, max_points=8_000, max_cont_state_nodes=4,
                     max_cont_choice_nodes=3, p_stoch=0.3, min_cont_states=2, max_cont_states=2, max_disc_states=2,
                     max_cont_choices=1, max_disc_choices=2)


@st.composite
def cases(draw):
    two_cont = draw(st.integers(0, 2)) == 0
    spec = draw(model_specs(PROFILE_2C if two_cont else PROFILE))
    nvar = draw(st.integers(2, 3))
    variants = [{"beta_f": 1.0, "par_f": 1.0, "leaf": draw(st.sampled_from(["float", "numpy", "jax"]))}]
    for i in range(1, nvar):
        variants.append({"beta_f": draw(st.sampled_from([0.5, 0.8, 0.9])), "par_f": draw(st.sampled_from([0.5, 1.5, 2.0])),
                         "leaf": draw(st.sampled_from(["float", "numpy", "jax"]))})
    ops = []
    lead = draw(st.integers(0, 3))
    if lead in (0, 1):
        # guaranteed interleaving A, B, rebuild, A
        ops = [{"op": "solve", "p": 0, "a": 0, "s": 0}, {"op": "solve", "p": 1, "a": 0, "s": 0},
               {"op": "rebuild", "p": 0, "a": 0, "s": 0}, {"op": "solve", "p": 0, "a": 0, "s": 0}]
    elif lead == 2:
        # the same with simulations that request additional targets: A, B, rebuild, B, A
        ops = [{"op": "sas", "p": 0, "a": 0, "s": 0, "t": 1}, {"op": "sas", "p": 1, "a": 0, "s": 0, "t": 1},
               {"op": "rebuild", "p": 0, "a": 0, "s": 0}, {"op": "sas", "p": 1, "a": 0, "s": 0, "t": 1},
               {"op": "sas", "p": 0, "a": 0, "s": 0, "t": 1}]
    for _ in range(draw(st.integers(4, 12))):
        kind = draw(st.sampled_from(["solve", "solve", "simulate", "sas", "sas", "rebuild", "poison", "leafswap", "reuse_dict", "reuse_dict", "twin", "twin"]))
        ops.append({"op": kind, "p": draw(st.integers(0, nvar - 1)), "a": draw(st.integers(0, 1)), "s": draw(st.integers(0, 1)),
                    "t": draw(st.integers(0, 2))})
    return {"spec": spec.to_json(), "variants": variants, "agents": [draw(raw_agents(1, 4)), draw(raw_agents(2, 5))],
            "seeds": [draw(st.integers(0, 2**31 - 1)), draw(st.integers(0, 2**31 - 1))], "ops": ops,
            "twin_first": draw(st.integers(0, 2)) == 0,
            "subprocess": two_cont or draw(st.integers(0, 3)) == 0,
            "hashseeds": [draw(st.sampled_from([1, 2, 12345, 4294967295])), draw(st.integers(3, 10**6)),
                          draw(st.integers(3, 10**6))]}


def strategy(tier):
    return cases()


def variant_spec(spec, v):
    new = spec.copy()
    new.params["beta"] = float(spec.params["beta"]) * v["beta_f"]
    for k, d in spec.params.items():
        if isinstance(d, dict) and k != "shocks":
            new.params[k] = {kk: float(vv) * v["par_f"] for kk, vv in d.items()}
    return new


def snapshot_params(p):
    out = {}
    for k, v in p.items():
        if isinstance(v, dict):
            out[k] = snapshot_params(v)
        else:
            out[k] = (type(v).__name__, np.asarray(v).copy())
    return out


def params_equal(a, b):
    if set(a) != set(b):
        return False
    for k in a:
        if isinstance(a[k], dict) != isinstance(b[k], dict):
            return False
        if isinstance(a[k], dict):
            if not params_equal(a[k], b[k]):
                return False
        elif a[k][0] != b[k][0] or not np.array_equal(a[k][1], b[k][1], equal_nan=True):
            return False
    return True


def model_snapshot(model):
    return (
        id(model.functions), tuple(model.functions), tuple(id(f) for f in model.functions.values()),
        tuple(str(inspect.signature(f)) for f in model.functions.values()),
        tuple(model.states), tuple(model.choices), model.n_periods,
        tuple(np.asarray(g.to_jax()).tobytes() for g in list(model.states.values()) + list(model.choices.values())),
    )


def result_repr(res):
    """solution list or frame -> dict name -> ndarray"""
    if isinstance(res, list):
        return {f"sol{t}": np.asarray(a) for t, a in enumerate(res)}
    return {"col_" + c: np.asarray(res[c]) for c in res.columns}


def same_result(a, b, tol=1e-12):
    if set(a) != set(b):
        return f"different keys {sorted(a)} vs {sorted(b)}"
    for k in a:
        x, y = a[k], b[k]
        if x.shape != y.shape:
            return f"{k}: shape {x.shape} vs {y.shape}"
        if x.dtype.kind == "f" or y.dtype.kind == "f":
            x, y = x.astype(float), y.astype(float)
            fin = np.isfinite(x) & np.isfinite(y)
            if not np.array_equal(np.isfinite(x), np.isfinite(y)) or not (np.abs(x[fin] - y[fin]) <= tol * np.maximum(1.0, np.abs(x[fin]))).all():
                i = int(np.argmax(~(np.abs(x - y) <= tol * np.maximum(1.0, np.abs(x)))))
                return f"{k}: entry {i}: {x.reshape(-1)[i]!r} vs {y.reshape(-1)[i]!r}"
        elif not np.array_equal(x, y):
            return f"{k}: discrete values differ"
    return None


def check(case):
    import jax.numpy as jnp

    base_spec, ref, skip = prepare(case)
    dg = case_digest(case)
    if skip:
        return Outcome(status="skip", reason=skip, digest=dg)
    if not all(np.isfinite(ref.to_lcm_layout(v, t)).all() for t, v in enumerate(ref.V)):
        return Outcome(status="skip", reason="nonfinite_reference", digest=dg)
    model = to_lcm_model(base_spec)
    snap_model = model_snapshot(model)
    fns = {}

    def build():
        from lcm.entry_point import get_lcm_function

        for tgt in ("solve", "simulate", "solve_and_simulate"):
            fns[tgt], _ = call_lcm(get_lcm_function, model, targets=tgt, debug_mode=False)

    specs = [variant_spec(base_spec, v) for v in case["variants"]]
    inits = [materialise_agents(base_spec, ref, a) for a in case["agents"]]
    if case.get("twin_first"):
        # a twin model (same names/signatures, other table contents) is the FIRST model that is
        # built, solved and simulated in this process: caches keyed by names would be seeded by it
        from ..ir import twin as make_twin

        tw = make_twin(base_spec)
        try:
            ftw = simcheck.get_functions(tw, targets=("solve_and_simulate",))
            simcheck.simulate(ftw, tw, inits[0], case["seeds"][0])
        except Exception:  # noqa: BLE001  (only a disturbance)
            pass
    build()
    pool = [n for n, f in base_spec.functions.items() if not n.endswith("_filter") and not f.get("stochastic")]
    target_lists = [pool[:3], pool[::-1][:2]]
    memo = {}
    msgs = []
    cnt = {"ops": 0, "memo_hits": 0, "rebuilds": 0, "subprocess_comparisons": 0}
    leaves = [v["leaf"] for v in case["variants"]]
    last_params = None
    held = None
    sols = {}
    history = []
    for op in case["ops"]:
        kind = op["op"]
        cnt["ops"] += 1
        if kind == "rebuild":
            build()
            cnt["rebuilds"] += 1
            history.append("R")
            continue
        if kind == "poison":
            if last_params is not None:
                last_params["beta"] = 999.0
                for k, d in last_params.items():
                    if isinstance(d, dict) and k != "shocks":
                        for kk in d:
                            d[kk] = -123.0
            continue
        if kind == "twin":
            # interlude: ANOTHER model with the same names and signatures but other table contents
            # and parameter values is built, solved and simulated in the same process; it must not
            # influence later calls of the functions under test
            from ..ir import twin as make_twin

            tw = make_twin(base_spec)
            try:
                ftw = simcheck.get_functions(tw, targets=("solve_and_simulate",))
                simcheck.simulate(ftw, tw, inits[op["a"]], case["seeds"][op["s"]])
                cnt["twin_interludes"] = cnt.get("twin_interludes", 0) + 1
                history.append("T")
            except Exception:  # noqa: BLE001  (the twin may be unsupported; it is only a disturbance)
                pass
            continue
        if kind == "leafswap":
            leaves[op["p"]] = {"float": "numpy", "numpy": "jax", "jax": "float"}[leaves[op["p"]]]
            continue
        pi = op["p"]
        if kind == "reuse_dict" and len(specs) > 1:
            # two CONSECUTIVE calls of the same function with the same dict object whose contents
            # were overwritten in place between the calls (variant q, then variant pi)
            qi = (pi + 1) % len(specs)
            first = to_lcm_params(specs[qi], leaf=leaves[qi])
            fn_kind = "solve_and_simulate" if op["a"] else "solve"
            init0 = {k: jnp.asarray(v) for k, v in inits[op["a"]].items()}
            kw0 = {"initial_states": init0, "seed": case["seeds"][op["s"]]} if op["a"] else {}
            call_lcm(fns[fn_kind], first, **kw0)
            fresh = to_lcm_params(specs[pi], leaf=leaves[pi])
            for k in list(first):
                if isinstance(first[k], dict) and k != "shocks":
                    first[k].clear()
                    first[k].update(fresh[k])
                else:
                    first[k] = fresh[k]
            second = call_lcm(fns[fn_kind], first, **kw0)
            ctrl = call_lcm(fns[fn_kind], to_lcm_params(specs[pi], leaf=leaves[pi]), **kw0)
            history.append(f"U{qi}{pi}")
            d = same_result(result_repr(ctrl), result_repr(second))
            if d:
                msgs.append(f"history {' '.join(history)}: {fn_kind} called twice in a row with ONE params dict whose contents were overwritten in place between the calls: the second result differs from a call with a fresh dict holding the same values ({d})")
                break
            continue
        if kind == "reuse_dict":
            # the caller re-uses ONE params dict object: its contents are overwritten in place
            # with the values of variant pi and the same object is passed again
            fresh = to_lcm_params(specs[pi], leaf=leaves[pi])
            if held is None:
                held = fresh
            else:
                for k in list(held):
                    if isinstance(held[k], dict) and k != "shocks":
                        held[k].clear()
                        held[k].update(fresh[k])
                    else:
                        held[k] = fresh[k]
            params = held
            kind = "sas" if op["a"] else "solve"
            reused = True
        else:
            reused = False
            params = to_lcm_params(specs[pi], leaf=leaves[pi])
        snap = snapshot_params(params)
        init = {k: jnp.asarray(v) for k, v in inits[op["a"]].items()}
        seed = case["seeds"][op["s"]]
        # additional targets: none, or one of two fixed lists of model functions (the same list
        # is requested again in later calls with other parameter values)
        tsel = op.get("t", 0) if not reused else 0
        tkw = {"additional_targets": target_lists[tsel - 1]} if tsel and target_lists[tsel - 1] else {}
        tsel = tsel if tkw else 0
        if kind == "solve":
            key = ("solve", pi)
            res = call_lcm(fns["solve"], params)
        elif kind == "simulate":
            key = ("simulate", pi, op["a"], op["s"], tsel)
            # the caller solves once and passes the SAME list object to several simulate calls;
            # the list (an argument of the call) must not be modified
            if pi not in sols:
                sols[pi] = call_lcm(fns["solve"], params)
            sol = sols[pi]
            ids_before = [id(x) for x in sol]
            res = call_lcm(fns["simulate"], params, initial_states=init, vf_arr_list=sol, seed=seed, **tkw)
            if [id(x) for x in sol] != ids_before:
                msgs.append("operation simulate modified the list of value arrays passed in as vf_arr_list")
                break
        else:
            key = ("sas", pi, op["a"], op["s"], tsel)
            res = call_lcm(fns["solve_and_simulate"], params, initial_states=init, seed=seed, **tkw)
        if tsel:
            cnt["calls_with_additional_targets"] = cnt.get("calls_with_additional_targets", 0) + 1
        history.append(f"{kind[0]}{pi}")
        last_params = params
        if not params_equal(snap, snapshot_params(params)):
            msgs.append(f"operation {kind} modified the params object passed in")
            break
        if model_snapshot(model) != snap_model:
            msgs.append(f"operation {kind} modified the user's Model object")
            break
        rr = result_repr(res)
        if key in memo:
            cnt["memo_hits"] += 1
            d = same_result(memo[key], rr)
            if d:
                msgs.append(f"history {' '.join(history)}: repeated call {key} returns a different result than the first time ({d})")
                break
        else:
            if reused:
                # control: the same VALUES in a fresh dict must give the same result
                fresh2 = to_lcm_params(specs[pi], leaf=leaves[pi])
                if kind == "solve":
                    ctrl = call_lcm(fns["solve"], fresh2)
                else:
                    ctrl = call_lcm(fns["solve_and_simulate"], fresh2, initial_states=init, seed=seed)
                d = same_result(result_repr(ctrl), rr)
                if d:
                    msgs.append(f"history {' '.join(history)}: a params dict that was overwritten in place and passed again gives a different result than a fresh dict with the same values ({d})")
                    break
            memo[key] = rr
    # after a twin-first disturbance the fresh process is the undisturbed ground truth
    if not msgs and (case["subprocess"] or case.get("twin_first")):
        v0 = dict(case["variants"][0])
        v0["leaf"] = "float"
        params = to_lcm_params(specs[0], leaf="float")
        sol = call_lcm(fns["solve"], params)
        init = {k: jnp.asarray(v) for k, v in inits[0].items()}
        df = call_lcm(fns["solve_and_simulate"], params, initial_states=init, seed=case["seeds"][0])
        here = {**result_repr(sol), **result_repr(df)}
        for hs in (case["hashseeds"] if case["subprocess"] else case["hashseeds"][:1]):
            with tempfile.TemporaryDirectory(prefix="lcm-verif-c09-") as td:
                job = {"spec": case["spec"], "variant": v0, "agents": case["agents"][0], "seed": case["seeds"][0]}
                with open(os.path.join(td, "job.json"), "w") as f:
                    json.dump(job, f)
                env = dict(os.environ, PYTHONHASHSEED=str(hs), PYTHONPATH=ROOT + os.pathsep + os.environ.get("PYTHONPATH", ""))
                r = subprocess.run([sys.executable, "-m", "vlib.subproc_solve", os.path.join(td, "job.json"), os.path.join(td, "out.npz")],
                                   cwd=ROOT, env=env, capture_output=True, text=True)
                if r.returncode != 0:
                    raise RuntimeError("subprocess failed: " + r.stderr[-1500:])
                other = dict(np.load(os.path.join(td, "out.npz")))
            cnt["subprocess_comparisons"] += 1
            d = same_result(here, other)
            if d:
                msgs.append(f"fresh process with PYTHONHASHSEED={hs} gives a different result ({d})"
                            + (" [a twin model with the same names was built and simulated first in this process]" if case.get("twin_first") else ""))
                break
    hist = "".join(history)
    interleaved = False
    seq = [h[1:] for h in history if h not in ("R", "T") and not h.startswith("U")]
    for i in range(len(seq)):
        for j in range(i + 1, len(seq)):
            for k in range(j + 1, len(seq)):
                if seq[i] == seq[k] != seq[j]:
                    interleaved = True
    out = Outcome(digest=dg, classes=model_classes(base_spec, ref) + (["subprocess"] if case["subprocess"] else []),
                  nontrivial=interleaved and cnt["rebuilds"] >= 1, info=cnt)
    if msgs:
        out.status, out.reason = "violation", msgs[0]
        out.bucket = "purity:" + ("params_modified" if "params object" in msgs[0] or "vf_arr_list" in msgs[0] else "model_modified" if "Model object" in msgs[0] else "hashseed" if "PYTHONHASHSEED" in msgs[0] else "history")
        return out
    s = sample_of(base_spec)
    s["history"] = history
    s["variants"] = case["variants"]
    out.sample = s
    return out

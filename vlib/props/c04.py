"""C04 - stochastic draws: specified probabilities, independent, seed-reproducible."""
from __future__ import annotations

import os

import numpy as np
from hypothesis import strategies as st

from .. import simcheck
from ..ir import Spec
from ..runner import Outcome, call_lcm, case_digest
from ..strategies import D

ID = "C04"
TITLE = "Stochastic draws: specified probabilities, independent, seed-reproducible"
BUDGET = {"quick": 96, "thorough": 640}
N_AGENTS = {"quick": 20_000, "thorough": 100_000}
RULE = (
    "Cases = fully discrete models with 1-3 stochastic states (2-3 labels) whose dependency lists are ordered, "
    "shuffled subsets of states, choices and the period, transition arrays with injected zeros and one-hot rows, 1-2 "
    "discrete choices with random utility tables, T=3-4, 20 000 (quick) / 100 000 (thorough) agents whose initial "
    "states come in contiguous blocks of identical states, two seeds; in one case of three the probability arrays are supplied as float32 arrays (the oracle uses the rounded, renormalised numbers). Oracle per simulation: (1) a label with "
    "probability 0 in the row selected by the agent's dependencies (signature order) is never drawn - exact; (2) for "
    "every conditioning cell with n>=200 agents and every label the exact two-sided binomial tail probability of the "
    "observed count under the specified p must be >= 1e-10; (3) for two stochastic states, chi-square of the joint "
    "next labels inside a joint conditioning cell against the product of the two specified rows, p >= 1e-9 (cells "
    "with expected count >= 5); (4) across periods: inside strata of equal conditioning cells at t and t+1, "
    "chi-square independence of the label drawn at t and the label drawn at t+1, p >= 1e-9; (5) across agents: lag-1 "
    "autocorrelation of the label indicator along the agent index inside a period-0 cell, |r|*sqrt(n) < 6.5; (6) same "
    "seed => identical frames, other seed => identical period-0 rows. With <= 1e4 tests per run the family-wise "
    "false-alarm probability is < 1e-5 and every run is a deterministic function of VERIF_SEED. Non-trivial: a model "
    "with >=1 tested cell that has >=2 positive-probability labels and n>=200; distinct by case digest."
)
ASSUMPTIONS = ["float64, CPU", "scipy.stats binomial / chi-square distributions", "statistical power: deviations below about 4/sqrt(n_cell) in a cell are out of reach"]
TECHNIQUE = "property-based testing with a statistical oracle (exact binomial tails, chi-square independence tests with a fixed tiny false-alarm budget) plus exact seed metamorphic relations, over generated transition arrays and dependency orders"
LEVEL_TEXT = "Exploration: dozens to hundreds of generated stochastic models per run, each simulated with 2e4-1e5 agents and tested cell by cell."
WORKERS = 8
P_MIN = 1e-10
NAMES = ["zeta", "b_x", "Alpha", "k2", "mm", "q_y"]


@st.composite
def cases(draw):
    d = D(draw)
    T = d.int(3, 4)
    n_st = d.int(1, 3)
    n_det = d.int(0, 1)
    n_ch = d.int(1, 2)
    names = draw(st.permutations(NAMES))[: n_st + n_det + n_ch]
    sto = list(names[:n_st])
    det = list(names[n_st:n_st + n_det])
    ch = list(names[n_st + n_det:])
    states = {s: ("disc", d.int(2, 3)) for s in d.perm(sto + det)}
    choices = {c: ("disc", d.int(2, 3)) for c in ch}
    size = {**{k: v[1] for k, v in states.items()}, **{k: v[1] for k, v in choices.items()}}
    consts, functions, params = {}, {}, {"beta": d.num(0.5, 0.99)}
    allv = list(states) + list(choices)
    shp = tuple(size[v] for v in allv)
    consts["TABU"] = d.table_float(shp, -2, 2)
    functions["utility"] = {"args": allv, "body": f"TABU[{', '.join(allv)}]"}
    params["shocks"] = {}
    for i, s in enumerate(sto):
        pool = allv + ["_period"]
        deps = d.perm(d.subset(pool, 1, 3))
        dshape = tuple(T if x == "_period" else size[x] for x in deps)
        params["shocks"][s] = d.simplex(dshape, size[s], p_onehot=0.3)
        functions[f"next_{s}"] = {"args": deps, "body": "None", "stochastic": True}
    for j, s in enumerate(det):
        over = d.subset(allv, 1, 2)
        consts[f"TABN{j}"] = d.table_int(tuple(size[v] for v in over), size[s])
        functions[f"next_{s}"] = {"args": over, "body": f"TABN{j}[{', '.join(over)}]"}
    for n in functions:
        params.setdefault(n, {})
    spec = Spec(T, states, choices, {k: functions[k] for k in d.perm(list(functions))}, consts, params)
    return {"spec": spec.to_json(), "seed_a": draw(st.integers(0, 2**31 - 1)), "seed_b": draw(st.integers(0, 2**31 - 1)),
            "block": draw(st.sampled_from([1, 7, 50, 500])), "n_small": draw(st.integers(1, 40)),
            "cross_process": draw(st.sampled_from([0, 0, 0, 1, 4242])),
            "shock_dtype": draw(st.sampled_from(["float64", "float64", "float32"]))}


def strategy(tier):
    return cases()


def binom_two_sided(k, n, p):
    from scipy.stats import binom

    return float(min(1.0, 2 * min(binom.cdf(k, n, p), binom.sf(k - 1, n, p))))


def check(case):
    import os

    import jax.numpy as jnp
    from scipy.stats import chi2, chi2_contingency

    tier = os.environ.get("VERIF_TIER_EFFECTIVE", "quick")
    N = int(os.environ.get("VERIF_C04_AGENTS", N_AGENTS.get(tier, 20_000)))
    spec = Spec.from_json(case["spec"])
    dg = case_digest(case)
    T = spec.n_periods
    S = list(spec.states)
    sizes = [spec.size(s) for s in S]
    ncomb = int(np.prod(sizes))
    blk = case["block"]
    combo = (np.arange(N) // blk) % ncomb
    idx = np.unravel_index(combo, sizes)
    init = {s: idx[i].astype(int) for i, s in enumerate(S)}
    fns = simcheck.get_functions(spec, targets=("solve", "simulate"))
    sdt = case.get("shock_dtype", "float64")
    if sdt != "float64":
        # the probability arrays are supplied in a narrower float type: the distribution is the one
        # the supplied numbers define (rows renormalised), so the oracle uses the rounded numbers
        spec = spec.copy()
        for s_ in list(spec.params["shocks"]):
            a = np.asarray(spec.params["shocks"][s_]).astype(sdt).astype(float)
            spec.params["shocks"][s_] = a / a.sum(axis=-1, keepdims=True)
    params = simcheck.to_lcm_params(spec)
    if sdt != "float64":
        params["shocks"] = {s_: jnp.asarray(np.asarray(a), dtype=sdt) for s_, a in params["shocks"].items()}
    sol = call_lcm(fns["solve"], params)

    def sim(seed):
        return simcheck.simulate(fns, spec, init, seed, vf_arr_list=sol, params=params)

    dfa = sim(case["seed_a"])
    dfa2 = sim(case["seed_a"])
    dfb = sim(case["seed_b"]) if case["seed_b"] != case["seed_a"] else None
    msgs = []
    cnt = {"binomial_tests": 0, "cells_tested": 0, "pair_tests": 0, "period_tests": 0, "agent_tests": 0, "draws": 0}
    nt = False
    # (6) seed laws
    if not dfa.equals(dfa2):
        msgs.append("two simulations with the same seed give different frames")
    if dfb is not None:
        if not dfa.loc[0].equals(dfb.loc[0]):
            msgs.append("changing the seed changes period-0 rows")
    allv = list(spec.variables)
    stoch = spec.stochastic_states()

    def test_frame(df, tag):
        nonlocal nt
        raw = {v: np.asarray(df[v], dtype=float).reshape(T, N) for v in allv}
        for v in allv:
            x = raw[v]
            if not (np.isfinite(x).all() and (x == np.round(x)).all() and (x >= 0).all() and (x < spec.size(v)).all()):
                msgs.append(f"{tag}: column {v} contains values that are not labels of its grid (0..{spec.size(v) - 1}), e.g. {x[~((x >= 0) & (x < spec.size(v)))][:3].tolist()}")
                return
        cols = {v: raw[v].astype(int) for v in allv}
        cell_ids = {}
        for t in range(T - 1):
            for s in stoch:
                deps = spec.functions[f"next_{s}"]["args"]
                P = np.asarray(spec.params["shocks"][s], dtype=float)
                dshape = P.shape[:-1]
                dvals = tuple(np.full(N, t) if x == "_period" else cols[x][t] for x in deps)
                cid = np.ravel_multi_index(dvals, dshape)
                cell_ids[(s, t)] = cid
                nxt = cols[s][t + 1]
                L = P.shape[-1]
                rows = P.reshape(-1, L)
                cnt["draws"] += N
                # (1) zero-probability labels never drawn
                pz = rows[cid, nxt]
                if (pz <= 0).any():
                    i = int(np.argmax(pz <= 0))
                    msgs.append(f"{tag}: period {t}->{t + 1}, state {s}: agent {i} drew label {int(nxt[i])} which has probability 0 in the row selected by {dict(zip(deps, [int(v[i]) for v in dvals]))}")
                    return
                # (2) conditional frequencies
                counts = np.zeros((rows.shape[0], L), dtype=int)
                np.add.at(counts, (cid, nxt), 1)
                for c in np.flatnonzero(counts.sum(axis=1) >= 200):
                    n = int(counts[c].sum())
                    cnt["cells_tested"] += 1
                    if (rows[c] > 0).sum() >= 2:
                        nt = True
                    for lab in range(L):
                        p = float(rows[c, lab])
                        if p <= 0 or p >= 1:
                            continue
                        cnt["binomial_tests"] += 1
                        pv = binom_two_sided(int(counts[c, lab]), n, p)
                        if pv < P_MIN:
                            msgs.append(
                                f"{tag}: period {t}->{t + 1}, state {s}, dependency values {dict(zip(deps, [int(v) for v in np.unravel_index(c, dshape)]))}: "
                                f"label {lab} drawn {int(counts[c, lab])}/{n} times, specified probability {p:.4f} (binomial tail {pv:.2e})"
                            )
                            return
                # (5) across agents: lag-1 autocorrelation inside period-0 cells (agent order)
                if t == 0:
                    for c in np.flatnonzero(counts.sum(axis=1) >= 1000)[:4]:
                        members = np.flatnonzero(cid == c)
                        x = (nxt[members] == int(np.argmax(rows[c]))).astype(float)
                        if 0 < x.mean() < 1:
                            x = x - x.mean()
                            r = float((x[:-1] * x[1:]).sum() / (x * x).sum())
                            cnt["agent_tests"] += 1
                            if abs(r) * np.sqrt(len(x)) > 6.5:
                                msgs.append(f"{tag}: state {s}: draws of neighbouring agents in one cell are correlated (lag-1 r={r:.3f}, n={len(x)})")
                                return
            # (3) independence across variables
            for a in range(len(stoch)):
                for b_ in range(a + 1, len(stoch)):
                    s1, s2 = stoch[a], stoch[b_]
                    P1 = np.asarray(spec.params["shocks"][s1], dtype=float)
                    P2 = np.asarray(spec.params["shocks"][s2], dtype=float)
                    r1, r2 = P1.reshape(-1, P1.shape[-1]), P2.reshape(-1, P2.shape[-1])
                    joint = cell_ids[(s1, t)] * r2.shape[0] + cell_ids[(s2, t)]
                    for jc in np.unique(joint):
                        m = joint == jc
                        n = int(m.sum())
                        if n < 400:
                            continue
                        c1, c2 = divmod(int(jc), r2.shape[0])
                        exp = n * np.outer(r1[c1], r2[c2])
                        obs = np.zeros_like(exp)
                        np.add.at(obs, (cols[s1][t + 1][m], cols[s2][t + 1][m]), 1)
                        ok = exp >= 5
                        if ok.sum() < 2 or (r1[c1] > 0).sum() < 2 or (r2[c2] > 0).sum() < 2:
                            continue
                        stat = float((((obs - exp) ** 2)[ok] / exp[ok]).sum())
                        pv = float(chi2.sf(stat, int(ok.sum()) - 1))
                        cnt["pair_tests"] += 1
                        if pv < 1e-9:
                            msgs.append(f"{tag}: period {t}->{t + 1}: next labels of {s1} and {s2} are not independent (chi2={stat:.1f}, p={pv:.2e}, n={n}): observed {obs.astype(int).tolist()}, expected {np.round(exp, 1).tolist()}")
                            return
        # (4) independence across periods, for every ordered pair of stochastic states (s2 drawn
        # at t, s1 drawn at t+1; includes s1 == s2): given the conditioning cell of s1 at t+1, the
        # label of s1 drawn at t+1 is independent of everything drawn before
        for s1 in stoch:
            for s2 in stoch:
                for t in range(T - 2):
                    strat = cell_ids[(s1, t + 1)]
                    for sc in np.unique(strat):
                        m = strat == sc
                        if int(m.sum()) < 400:
                            continue
                        a_, b_ = cols[s2][t + 1][m], cols[s1][t + 2][m]
                        tab = np.zeros((spec.size(s2), spec.size(s1)))
                        np.add.at(tab, (a_, b_), 1)
                        tab = tab[tab.sum(axis=1) > 0][:, tab.sum(axis=0) > 0]
                        if tab.shape[0] < 2 or tab.shape[1] < 2:
                            continue
                        exp = np.outer(tab.sum(axis=1), tab.sum(axis=0)) / tab.sum()
                        if (exp < 5).any():
                            continue
                        stat, pv, _, _ = chi2_contingency(tab, correction=False)
                        cnt["period_tests"] += 1
                        if pv < 1e-9:
                            msgs.append(f"{tag}: label of {s2} drawn in period {t} and label of {s1} drawn in period {t + 1} are not independent within a conditioning cell of {s1} (chi2={stat:.1f}, p={pv:.2e}): {tab.astype(int).tolist()}")
                            return

    # small batches (1..40 agents): exact clauses only (zero-probability labels, seed laws)
    n_small = case.get("n_small")
    if not msgs and n_small:
        init_s = {s: v[:: max(1, N // n_small)][:n_small] for s, v in init.items()}
        ns = len(next(iter(init_s.values())))
        ds1 = simcheck.simulate(fns, spec, init_s, case["seed_a"], vf_arr_list=sol)
        ds2 = simcheck.simulate(fns, spec, init_s, case["seed_a"], vf_arr_list=sol)
        ds3 = simcheck.simulate(fns, spec, init_s, case["seed_b"], vf_arr_list=sol)
        cnt["small_batch_simulations"] = 3
        if not ds1.equals(ds2):
            msgs.append(f"two simulations of {ns} agents with the same seed give different frames")
        elif not ds1.loc[0].equals(ds3.loc[0]):
            msgs.append(f"changing the seed changes period-0 rows ({ns} agents)")
        else:
            from ..refmodel import Reference

            m2, _ = simcheck.check_law_of_motion(spec, Reference(spec), ds1, init_s, ns)
            if m2:
                msgs.append(f"{ns} agents: " + m2[0])
    # same seed in ANOTHER process (another hash seed) gives the identical frame
    if not msgs and case.get("cross_process") and sdt == "float64":
        import json as _json
        import subprocess
        import sys
        import tempfile

        from ..runner import ROOT

        n_cp = 400
        init_c = {s: v[:: max(1, N // n_cp)][:n_cp] for s, v in init.items()}
        fsas = simcheck.get_functions(spec, targets=("solve_and_simulate",))
        here = simcheck.simulate(fsas, spec, init_c, case["seed_a"])
        with tempfile.TemporaryDirectory(prefix="lcm-verif-c04-") as td:
            with open(os.path.join(td, "job.json"), "w") as f:
                _json.dump({"mode": "simulate_given_init", "spec": case["spec"], "seed": case["seed_a"],
                            "init": {k: np.asarray(v).tolist() for k, v in init_c.items()}}, f)
            env = dict(os.environ, PYTHONHASHSEED=str(case["cross_process"]),
                       PYTHONPATH=ROOT + os.pathsep + os.environ.get("PYTHONPATH", ""))
            r = subprocess.run([sys.executable, "-m", "vlib.subproc_solve", os.path.join(td, "job.json"),
                                os.path.join(td, "out.npz")], cwd=ROOT, env=env, capture_output=True, text=True)
            if r.returncode != 0:
                raise RuntimeError("subprocess failed: " + r.stderr[-1500:])
            other = dict(np.load(os.path.join(td, "out.npz")))
        cnt["cross_process_comparisons"] = 1
        for c in here.columns:
            if not np.array_equal(np.asarray(here[c]), other["col_" + c]):
                msgs.append(f"the same seed gives a different frame in another process (PYTHONHASHSEED={case['cross_process']}): column {c} differs")
                break
    if not msgs:
        test_frame(dfa, f"seed {case['seed_a']}")
    if not msgs and dfb is not None:
        test_frame(dfb, f"seed {case['seed_b']}")
        changed = any(not np.array_equal(np.asarray(dfa[s]), np.asarray(dfb[s])) for s in stoch)
        cnt["other_seed_changes_later_periods"] = int(changed)
    out = Outcome(digest=dg, classes=[f"stochastic_states_{len(stoch)}", f"block_{blk}", f"shock_arrays_{sdt}"], nontrivial=nt, info=cnt)
    if msgs:
        out.status, out.reason = "violation", msgs[0]
        out.bucket = "draws:" + ("seed" if "seed" in msgs[0] and ("same seed" in msgs[0] or "changing the seed" in msgs[0] or "the same seed" in msgs[0]) else
                                 "zero_probability" if "which has probability 0" in msgs[0] or "drawn with probability 0" in msgs[0] else
                                 "frequency" if "binomial" in msgs[0] else "invalid_label" if "not labels of its grid" in msgs[0] else "independence")
        return out
    out.sample = {"n_periods": T, "states": {k: list(v) for k, v in spec.states.items()}, "choices": {k: list(v) for k, v in spec.choices.items()},
                  "dependencies": {s: spec.functions[f"next_{s}"]["args"] for s in stoch},
                  "shocks": {s: np.round(np.asarray(spec.params["shocks"][s]), 3).tolist() for s in stoch}, "n_agents": N}
    return out


REJECT_SKIPS = False

"""Environment set-up shared by every check process.

* code under test = the current working tree (``LCM_SRC`` or /repo/src first on sys.path)
* float64 (as the repository's own tests/conftest.py does)
* single-threaded XLA per worker (parallelism comes from worker processes)
* ``jax.util`` stand-in only if the installed JAX has none (environment compatibility,
  not a hook into lcm; a no-op on a tree that carries the D0 repair)
"""
import logging
import os
import sys
import types
import warnings

LCM_SRC = os.environ.get("LCM_SRC", "/repo/src")


def env_for_workers():
    env = dict(os.environ)
    env.setdefault("PYTHONHASHSEED", "0")
    env["PYTHONDONTWRITEBYTECODE"] = "1"
    env["JAX_PLATFORMS"] = "cpu"
    env["OMP_NUM_THREADS"] = "1"
    env["OPENBLAS_NUM_THREADS"] = "1"
    env["MKL_NUM_THREADS"] = "1"
    env["XLA_FLAGS"] = (
        "--xla_cpu_multi_thread_eigen=false intra_op_parallelism_threads=1"
    )
    env["LCM_VERIF"] = "1"
    return env


_done = False


def setup():
    """Idempotent. Must run before ``import lcm``."""
    global _done
    if _done:
        return
    _done = True
    sys.dont_write_bytecode = True
    for k, v in env_for_workers().items():
        if k in ("PYTHONHASHSEED",):
            continue
        os.environ.setdefault(k, v)
    if LCM_SRC in sys.path:
        sys.path.remove(LCM_SRC)
    sys.path.insert(0, LCM_SRC)
    deps = os.path.join(os.path.dirname(os.path.dirname(os.path.abspath(__file__))), ".deps")
    if os.path.isdir(deps) and deps not in sys.path:
        sys.path.append(deps)
    warnings.filterwarnings("ignore")
    import jax

    jax.config.update("jax_enable_x64", True)
    try:
        from jax import util  # noqa: F401
    except ImportError:
        m = types.ModuleType("jax.util")

        def safe_zip(*args):
            args = [list(a) for a in args]
            n = len(args[0])
            for a in args[1:]:
                if len(a) != n:
                    raise ValueError(f"length mismatch: {list(map(len, args))}")
            return list(zip(*args))

        def unzip2(xys):
            xs, ys = [], []
            for x, y in xys:
                xs.append(x)
                ys.append(y)
            return tuple(xs), tuple(ys)

        m.safe_zip = safe_zip
        m.unzip2 = unzip2
        sys.modules["jax.util"] = m
        jax.util = m
    logging.getLogger("lcm").setLevel(logging.ERROR)
    logging.getLogger("jax").setLevel(logging.ERROR)
    import lcm  # noqa: F401

    src = os.path.realpath(os.path.dirname(os.path.dirname(lcm.__file__)))
    if src != os.path.realpath(LCM_SRC):
        raise RuntimeError(f"lcm imported from {src}, expected {LCM_SRC}")

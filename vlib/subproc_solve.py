"""Helper for C09: solve and simulate one case in a fresh process (any PYTHONHASHSEED)."""
import json
import sys

import numpy as np


def main():
    inp, outp = sys.argv[1], sys.argv[2]
    from vlib import compat

    compat.setup()
    from vlib import simcheck
    from vlib.ir import Spec
    from vlib.refmodel import Reference
    from vlib.strategies import materialise_agents
    from vlib.props.c09 import variant_spec

    with open(inp) as f:
        job = json.load(f)
    if job.get("mode") == "simulate_given_init":
        spec = Spec.from_json(job["spec"])
        init = {k: np.asarray(v) for k, v in job["init"].items()}
        fns = simcheck.get_functions(spec, targets=("solve_and_simulate",))
        df = simcheck.simulate(fns, spec, init, job["seed"])
        np.savez(outp, **{"col_" + c: np.asarray(df[c]) for c in df.columns})
        return
    spec = variant_spec(Spec.from_json(job["spec"]), job["variant"])
    ref = Reference(spec)
    init = materialise_agents(spec, ref, job["agents"])
    fns = simcheck.get_functions(spec, targets=("solve", "solve_and_simulate"))
    params = simcheck.to_lcm_params(spec, leaf=job["variant"]["leaf"])
    sol = fns["solve"](params)
    df = simcheck.simulate(fns, spec, init, job["seed"], params=params)
    out = {f"sol{t}": np.asarray(a) for t, a in enumerate(sol)}
    for c in df.columns:
        out["col_" + c] = np.asarray(df[c])
    np.savez(outp, **out)


if __name__ == "__main__":
    main()

import argparse
import os
import sys

HERE = os.path.dirname(os.path.dirname(os.path.abspath(__file__)))
sys.path.insert(0, HERE)


def main():
    ap = argparse.ArgumentParser()
    ap.add_argument("prop")
    ap.add_argument("--tier", default=os.environ.get("VERIF_TIER", "quick"), choices=["quick", "thorough"])
    ap.add_argument("--replay")
    ap.add_argument("--n", type=int, default=None)
    ap.add_argument("--seed", type=int, default=None)
    a = ap.parse_args()
    seed = a.seed if a.seed is not None else int(os.environ.get("VERIF_SEED", "1") or 1)
    from vlib import runner

    try:
        if a.replay:
            rc = runner.run_replay(a.prop.upper(), a.replay)
        else:
            rc = runner.run_check(a.prop.upper(), a.tier, seed, a.n)
    except Exception:  # noqa: BLE001
        import traceback

        traceback.print_exc()
        print(f"HARNESS-ERROR property={a.prop}")
        rc = 2
    sys.stdout.flush()
    os._exit(rc)


if __name__ == "__main__":
    main()

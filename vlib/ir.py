"""Model IR: a model specification as data (DESIGN.md section 4.1).

Spec(n_periods, states, choices, functions, consts, params)

* states / choices: ordered dict  name -> ["disc", n] | ["lin", a, b, n] | ["log", a, b, n]
* functions: ordered dict  name -> {"args": [...], "body": "<python expr>",
                                    "stochastic": bool, "margin": "<expr>" | None}
  bodies are expressions over the argument names, the constant tables in ``consts`` and
  the array-module alias ``xp`` (numpy for the reference, jax.numpy for lcm).
* consts: name -> ndarray (lookup tables)
* params: {"beta": x, <function name>: {pname: x}, "shocks": {state: ndarray}}

Nothing in this module imports lcm except ``to_lcm_model`` / ``to_lcm_params``.
"""
from __future__ import annotations

import copy
import hashlib
import json
import re
from dataclasses import dataclass, field

import numpy as np


@dataclass
class Spec:
    n_periods: int
    states: dict
    choices: dict
    functions: dict
    consts: dict = field(default_factory=dict)
    params: dict = field(default_factory=dict)

    # ------------------------------------------------------------------ json
    def to_json(self):
        return {
            "n_periods": self.n_periods,
            "states": {k: list(v) for k, v in self.states.items()},
            "choices": {k: list(v) for k, v in self.choices.items()},
            "functions": {
                k: {kk: vv for kk, vv in v.items() if vv not in (None, False)}
                for k, v in self.functions.items()
            },
            "state_order": list(self.states),
            "choice_order": list(self.choices),
            "function_order": list(self.functions),
            "consts": {k: _arr_to_json(v) for k, v in self.consts.items()},
            "params": _params_to_json(self.params),
        }

    @staticmethod
    def from_json(d):
        so = d.get("state_order", list(d["states"]))
        co = d.get("choice_order", list(d["choices"]))
        fo = d.get("function_order", list(d["functions"]))
        return Spec(
            n_periods=int(d["n_periods"]),
            states={k: tuple(d["states"][k]) for k in so},
            choices={k: tuple(d["choices"][k]) for k in co},
            functions={k: dict(d["functions"][k]) for k in fo},
            consts={k: _arr_from_json(v) for k, v in d["consts"].items()},
            params=_params_from_json(d["params"]),
        )

    def digest(self):
        s = json.dumps(self.to_json(), sort_keys=False, default=str)
        return hashlib.sha256(s.encode()).hexdigest()[:16]

    def copy(self):
        return copy.deepcopy(self)

    # ------------------------------------------------------------- structure
    @property
    def variables(self):
        return {**self.states, **self.choices}

    def is_disc(self, v):
        return self.variables[v][0] == "disc"

    def size(self, v):
        g = self.variables[v]
        return g[1] if g[0] == "disc" else g[3]

    def filters(self):
        return [n for n in self.functions if n.endswith("_filter")]

    def constraints(self):
        return [n for n in self.functions if n.endswith("_constraint")]

    def stochastic_states(self):
        return [
            s for s in self.states if self.functions[f"next_{s}"].get("stochastic")
        ]

    def ancestors(self, name, seen=None):
        """All argument names reachable from function ``name`` (variables, functions,
        parameters, '_period')."""
        seen = set() if seen is None else seen
        for a in self.functions[name]["args"]:
            if a in seen:
                continue
            seen.add(a)
            if a in self.functions:
                self.ancestors(a, seen)
        return seen

    def restricted(self):
        """(restricted states, restricted choices): variables some filter reaches,
        in declaration order."""
        anc = set()
        for f in self.filters():
            anc |= self.ancestors(f)
        return (
            [s for s in self.states if s in anc],
            [c for c in self.choices if c in anc],
        )

    def func_params(self, name):
        """Arguments of function ``name`` that are parameters."""
        names = set(self.functions) | set(self.states) | set(self.choices) | {"_period"}
        return [a for a in self.functions[name]["args"] if a not in names]

    def mentions_period(self):
        return any("_period" in f["args"] for f in self.functions.values())


def _arr_to_json(a):
    a = np.asarray(a)
    return {"dtype": str(a.dtype), "shape": list(a.shape), "data": a.reshape(-1).tolist()}


def _arr_from_json(d):
    return np.asarray(d["data"], dtype=d["dtype"]).reshape(d["shape"])


def _params_to_json(p):
    out = {}
    for k, v in p.items():
        if k == "shocks":
            out[k] = {s: _arr_to_json(a) for s, a in v.items()}
        elif isinstance(v, dict):
            out[k] = {kk: float(vv) for kk, vv in v.items()}
        else:
            out[k] = float(v)
    return out


def _params_from_json(p):
    out = {}
    for k, v in p.items():
        if k == "shocks":
            out[k] = {s: _arr_from_json(a) for s, a in v.items()}
        elif isinstance(v, dict):
            out[k] = dict(v)
        else:
            out[k] = v
    return out


# ---------------------------------------------------------------------- grids
def grid_nodes(g):
    """Closed-form grid nodes (numpy float64); independent of lcm."""
    if g[0] == "disc":
        return np.arange(g[1])
    if g[0] == "lin":
        _, a, b, n = g
        if n == 1:
            return np.array([float(a)])
        return float(a) + np.arange(n) * ((float(b) - float(a)) / (n - 1))
    if g[0] == "log":
        _, a, b, n = g
        la, lb = np.log(float(a)), np.log(float(b))
        if n == 1:
            return np.array([float(a)])
        return np.exp(la + np.arange(n) * ((lb - la) / (n - 1)))
    raise ValueError(g)


# ------------------------------------------------------------------ rendering
def function_source(name, f, body_key="body"):
    return f"def {name}({', '.join(f['args'])}):\n    return {f[body_key]}\n"


def compile_funcs(spec, xp, with_margins=False):
    """exec the generated defs; returns name -> python function with a real signature."""
    out = {}
    ns_base = {"xp": xp}
    for k, v in spec.consts.items():
        ns_base[k] = xp.asarray(v)
    for name, f in spec.functions.items():
        ns = dict(ns_base)
        exec(function_source(name, f), ns)  # noqa: S102
        out[name] = ns[name]
        if with_margins and f.get("margin"):
            ns = dict(ns_base)
            mname = "__margin_" + name
            exec(function_source(mname, f, "margin"), ns)  # noqa: S102
            out[mname] = ns[mname]
    # one Python callable registered under several names (a generic law of motion re-used for
    # several states; each name keeps its own parameter block)
    for name, f in spec.functions.items():
        if f.get("same_as"):
            out[name] = out[f["same_as"]]
    return out


_CAT_CACHE = {}


def category_class(n):
    from dataclasses import make_dataclass

    if n not in _CAT_CACHE:
        _CAT_CACHE[n] = make_dataclass(f"Cat{n}", [(f"c{i}", int, i) for i in range(n)])
    return _CAT_CACHE[n]


def to_lcm_grid(g):
    from lcm import DiscreteGrid, LinspaceGrid, LogspaceGrid

    if g[0] == "disc":
        return DiscreteGrid(category_class(g[1]))
    if g[0] == "lin":
        return LinspaceGrid(start=g[1], stop=g[2], n_points=g[3])
    return LogspaceGrid(start=g[1], stop=g[2], n_points=g[3])


def to_lcm_model(spec, wrap=None):
    """wrap: optional callable (name, function) -> function applied to every compiled model
    function (used to present the same functions as other kinds of callables)."""
    import jax.numpy as jnp
    import lcm
    from lcm import Model

    fs = compile_funcs(spec, jnp)
    if wrap is not None:
        fs = {n: wrap(n, f) for n, f in fs.items()}
    for n, f in spec.functions.items():
        if f.get("stochastic"):
            fs[n] = lcm.mark.stochastic(fs[n])
    return Model(
        n_periods=spec.n_periods,
        functions=fs,
        choices={k: to_lcm_grid(v) for k, v in spec.choices.items()},
        states={k: to_lcm_grid(v) for k, v in spec.states.items()},
    )


def to_lcm_params(spec, leaf="float"):
    """Template-conforming params. leaf: 'float' | 'numpy' | 'jax'."""
    import jax.numpy as jnp

    conv = {
        "float": float,
        "numpy": lambda x: np.float64(x),
        "jax": lambda x: jnp.asarray(float(x)),
    }[leaf]
    p = {}
    for k, v in spec.params.items():
        if k == "shocks":
            if leaf == "numpy":
                p[k] = {s: np.asarray(a, dtype=float) for s, a in v.items()}
            else:
                p[k] = {s: jnp.asarray(np.asarray(a, dtype=float)) for s, a in v.items()}
        elif isinstance(v, dict):
            p[k] = {kk: conv(vv) for kk, vv in v.items()}
        else:
            p[k] = conv(v)
    for n in spec.functions:
        p.setdefault(n, {})
    return p


# ------------------------------------------------------------------ rewriting
def rename(spec, mapping):
    """Consistently rename variables / functions / params mentioned in ``mapping``
    (old -> new) everywhere: dict keys, signatures, bodies, next_ prefixes."""
    # outputs of transition functions may be arguments of other functions (next_<state>)
    mapping = {**mapping, **{f"next_{k}": f"next_{v}" for k, v in mapping.items()}}
    pat = re.compile(r"\b(" + "|".join(re.escape(k) for k in sorted(mapping, key=len, reverse=True)) + r")\b")

    def sub(s):
        return pat.sub(lambda m: mapping[m.group(1)], s)

    def fname(n):
        if n.startswith("next_") and n[5:] in mapping:
            return "next_" + mapping[n[5:]]
        return mapping.get(n, n)

    new = spec.copy()
    new.states = {mapping.get(k, k): v for k, v in spec.states.items()}
    new.choices = {mapping.get(k, k): v for k, v in spec.choices.items()}
    funcs = {}
    for n, f in spec.functions.items():
        g = dict(f)
        g["args"] = [mapping.get(a, a) for a in f["args"]]
        g["body"] = sub(f["body"])
        if f.get("margin"):
            g["margin"] = sub(f["margin"])
        funcs[fname(n)] = g
    new.functions = funcs
    params = {}
    for k, v in spec.params.items():
        if k == "shocks":
            params[k] = {mapping.get(s, s): a for s, a in v.items()}
        elif isinstance(v, dict):
            params[fname(k)] = dict(v)
        else:
            params[k] = v
    new.params = params
    return new


def reorder(spec, state_order=None, choice_order=None, function_order=None):
    new = spec.copy()
    if state_order is not None:
        new.states = {k: spec.states[k] for k in state_order}
    if choice_order is not None:
        new.choices = {k: spec.choices[k] for k in choice_order}
    if function_order is not None:
        new.functions = {k: spec.functions[k] for k in function_order}
    return new


def share_callable(spec):
    """Add a continuous state <s>_dup that follows the SAME law of motion as an existing
    continuous state s - literally the same Python callable, registered a second time as
    next_<s>_dup - but with its own parameter values. Returns None if no state qualifies."""
    for s_, g in spec.states.items():
        n = f"next_{s_}"
        f = spec.functions[n]
        if g[0] == "disc" or f.get("stochastic") or f.get("same_as"):
            continue
        new = spec.copy()
        dup = s_ + "_dup"
        args, body = list(f["args"]) + ["dup_shift"], f"({f['body']}) + dup_shift"
        new.functions[n] = {**f, "args": args, "body": body}
        new.params[n] = {**dict(spec.params.get(n, {})), "dup_shift": 0.0}
        new.states[dup] = g
        new.functions[f"next_{dup}"] = {"args": args, "body": body, "same_as": n}
        new.params[f"next_{dup}"] = {k: float(v) * 0.8 + 0.05 for k, v in new.params[n].items()}
        new.params[f"next_{dup}"]["dup_shift"] = 0.07 * (float(g[2]) - float(g[1]))
        u = new.functions["utility"]
        new.functions["utility"] = {**u, "args": [*u["args"], dup], "body": f"({u['body']}) + 0.01 * {dup}"}
        return new
    return None


def with_signature_attribute(name, fn):
    """The same function as a plain forwarding callable that carries an explicit __signature__
    attribute (what dags.signature.with_signature / rename_arguments and many decorator libraries
    produce)."""
    import inspect

    def forward(*args, **kwargs):
        return fn(*args, **kwargs)

    forward.__signature__ = inspect.signature(fn)
    forward.__name__ = getattr(fn, "__name__", name)
    return forward


def twin(spec):
    """A model with exactly the same names, signatures, grids and parameter structure but
    different table contents (float tables rescaled, boolean restriction tables made more
    permissive, integer transition tables kept) and parameter values: used to detect state leaking between models (caches keyed on names)."""
    new = spec.copy()
    for k, a in spec.consts.items():
        a = np.asarray(a)
        if a.dtype.kind == "f":
            new.consts[k] = a * 0.5 + 0.37
        elif a.dtype.kind == "b":
            # more permissive restriction tables: every combination that passes in the original
            # still passes, so the twin stays solvable and simulable whenever the original is
            new.consts[k] = a | np.roll(a.reshape(-1), 1).reshape(a.shape)
        # integer tables (discrete transitions) are kept: the twin must stay inside its space
    # filters given as one table: use (roughly) the COMPLEMENT, keeping the all-zero choice
    # combination admissible for every state, so that the twin's admissible sets differ
    # materially from the original's while the twin can still be solved and simulated
    for fname in spec.filters():
        f = spec.functions[fname]
        m = re.fullmatch(r"(TAB\d+)\[(.*)\]", f["body"].strip())
        if m and m.group(1) in spec.consts and np.asarray(spec.consts[m.group(1)]).dtype.kind == "b":
            a = np.asarray(spec.consts[m.group(1)])
            if a.ndim == len(f["args"]):
                comp = ~a
                idx = tuple(0 if arg in spec.choices else slice(None) for arg in f["args"])
                comp[idx] = True
                new.consts[m.group(1)] = comp
    for k, d in spec.params.items():
        if isinstance(d, dict) and k != "shocks":
            new.params[k] = {kk: float(v) * 1.7 + 0.11 for kk, v in d.items()}
    new.params["beta"] = float(spec.params["beta"]) * 0.9
    return new

"""Hypothesis strategies for model specifications (DESIGN.md section 4.2).

Everything random goes through ``draw`` so that cases shrink and replay.  The generator
builds models *by construction*; the two global preconditions of C01 that cannot be
constructed (no reachable excluded state, no knife edge) are decided by the reference model
in the property modules.
"""
from __future__ import annotations

from dataclasses import dataclass, field

import numpy as np
from hypothesis import strategies as st

from .ir import Spec, grid_nodes

VAR_POOL = ["zeta", "b_x", "Alpha", "k2", "mm", "q_y", "Wd", "eta", "c9", "hh", "Yb", "a_1",
            "r3", "Ux", "v_v", "j7", "Nn", "o_2", "tq", "Ey", "g4", "Lz"]
AUX_POOL = ["income", "Gam", "aux_b", "tax_filter_cost", "budget_constraint_slack"]
PARAM_POOL = ["scale", "rate", "k"]


@dataclass
class Profile:
    name: str = "supported"
    min_periods: int = 1
    max_periods: int = 4
    max_disc_states: int = 3
    max_cont_states: int = 2
    max_disc_choices: int = 3
    max_cont_choices: int = 2
    max_disc_size: int = 4
    max_cont_state_nodes: int = 6
    max_cont_choice_nodes: int = 6
    min_cont_choice_nodes: int = 1
    max_points: int = 60_000
    p_filter: float = 0.6
    filter_modes: tuple = ("keep_all", "keep_all", "drop", "drop", "free")
    p_period_filter: float = 0.5
    p_stoch: float = 0.3
    p_aux: float = 0.5
    p_budget: float = 0.7
    p_table_constraint: float = 0.4
    p_bonus: float = 0.33
    p_log: float = 0.4
    force_sparse_and_dense_choice: float = 0.0
    distinct_sizes: bool = False
    every_function_has_params: bool = False
    allow_stoch: bool = True
    fully_discrete: float = 0.0
    free_constraints: float = 0.15
    free_p_true: float = 0.7
    max_R: int = 2
    allow_period: bool = True
    p_near_tie: float = 0.0
    min_cont_states: int = 0
    min_disc_states: int = 0
    p_period_only_in_constraints: float = 0.0
    p_infeasible_last: float = 0.0
    p_next_dependent_constraint: float = 0.15
    max_RC: int = 2
    min_RC: int = 0
    extra: dict = field(default_factory=dict)


class D:
    """Thin layer over hypothesis ``draw`` (all randomness goes through it)."""

    def __init__(self, draw):
        self.draw = draw

    def int(self, lo, hi):
        return self.draw(st.integers(lo, hi))

    def bool(self, p=0.5):
        # 0 shrinks to False ("feature off")
        return self.draw(st.integers(0, 99)) >= 100 - int(round(p * 100))

    def choice(self, seq):
        return self.draw(st.sampled_from(list(seq)))

    def subset(self, seq, lo, hi):
        seq = list(seq)
        hi = min(hi, len(seq))
        lo = min(lo, hi)
        if hi == 0:
            return []
        return list(
            self.draw(st.lists(st.sampled_from(seq), min_size=lo, max_size=hi, unique=True))
        )

    def perm(self, seq):
        seq = list(seq)
        if len(seq) < 2:
            return seq
        return list(self.draw(st.permutations(seq)))

    def num(self, lo, hi, digits=2):
        s = 10**digits
        return self.draw(st.integers(int(round(lo * s)), int(round(hi * s)))) / s

    def ints(self, n, lo, hi):
        if n > 1024:
            # very large tables: draw 1021 (prime) values and tile them
            base = self.draw(st.lists(st.integers(lo, hi), min_size=1021, max_size=1021))
            return [base[i % 1021] for i in range(n)]
        return self.draw(st.lists(st.integers(lo, hi), min_size=n, max_size=n))

    def table_float(self, shape, lo=-2.0, hi=2.0, digits=2):
        n = int(np.prod(shape)) if shape else 1
        s = 10**digits
        v = self.ints(n, int(round(lo * s)), int(round(hi * s)))
        return (np.asarray(v, dtype=float) / s).reshape(shape)

    def table_bool(self, shape, p_true=0.7):
        n = int(np.prod(shape)) if shape else 1
        v = self.ints(n, 0, 9)
        return (np.asarray(v) < int(round(p_true * 10))).reshape(shape)

    def table_int(self, shape, n_labels):
        n = int(np.prod(shape)) if shape else 1
        return np.asarray(self.ints(n, 0, n_labels - 1), dtype=int).reshape(shape)

    def simplex(self, shape, n_labels, p_zero=0.3, p_onehot=0.15):
        """Transition rows: integer weights normalised; injected zeros and one-hot rows."""
        rows = int(np.prod(shape)) if shape else 1
        w = np.asarray(self.ints(rows * n_labels, 0, 9), dtype=float).reshape(rows, n_labels)
        # zero injection is part of the draw (weights of 0); guarantee a positive entry
        for r in range(rows):
            if w[r].sum() == 0:
                w[r, r % n_labels] = 1.0
        if self.bool(p_onehot):
            r = self.int(0, rows - 1)
            j = int(np.argmax(w[r]))
            w[r] = 0
            w[r, j] = 1
        P = w / w.sum(axis=1, keepdims=True)
        return P.reshape(tuple(shape) + (n_labels,))


def _grid(d, kinds, nmin, nmax):
    kind = d.choice(kinds)
    n = d.int(nmin, nmax)
    if kind == "lin":
        a = d.num(-2, 2)
        b = round(a + d.num(0.5, 6), 2)
        return ("lin", a, b, n)
    a = d.num(0.2, 2)
    b = round(a * d.num(1.5, 20), 4)
    return ("log", a, b, n)


class _Builder:
    def __init__(self, d, prof):
        self.d = d
        self.prof = prof
        self.consts = {}
        self.functions = {}
        self.params = {}
        self.ntab = 0

    def table(self, over, period, arr_fn):
        shp = tuple(self.size[v] for v in over) + ((self.T,) if period else ())
        arr = arr_fn(shp)
        name = f"TAB{self.ntab}"
        self.ntab += 1
        self.consts[name] = arr
        idx = ", ".join(list(over) + (["_period"] if period else []))
        return f"{name}[{idx}]" if idx else f"{name}[()]"

    def add_param(self, fname, pname, lo=-1.0, hi=1.0):
        self.params.setdefault(fname, {})
        # distinct values: offset by a per-(function,param) irrational-ish amount
        val = self.d.num(lo, hi) + 0.001 * (len(self.params[fname]) + 1) + 0.0001 * (
            sum(map(ord, fname)) % 97
        )
        self.params[fname][pname] = round(val, 6)


@st.composite
def model_specs(draw, prof: Profile = Profile()):
    d = D(draw)
    b = _Builder(d, prof)
    T = d.int(prof.min_periods, prof.max_periods)
    b.T = T
    Tp = T if prof.allow_period else 1  # period-dependent features only if allowed
    Tc = Tp  # period dependence of constraint tables
    if T >= 3 and prof.p_period_only_in_constraints and d.bool(prof.p_period_only_in_constraints):
        # the period enters the model ONLY through a constraint (utility, transitions, filters and
        # auxiliary functions are period-free)
        Tp, Tc = 1, T
    fully_discrete = d.bool(prof.fully_discrete) if prof.fully_discrete else False
    nds = d.int(min(prof.min_disc_states, prof.max_disc_states), prof.max_disc_states)
    ncs = 0 if fully_discrete else d.int(min(prof.min_cont_states, prof.max_cont_states), prof.max_cont_states)
    ndc = d.int(0, prof.max_disc_choices)
    ncc = 0 if fully_discrete else d.int(0, prof.max_cont_choices)
    if nds + ncs == 0:
        nds = 1
    want_filter = nds > 0 and d.bool(prof.p_filter)
    if prof.force_sparse_and_dense_choice and d.bool(prof.force_sparse_and_dense_choice):
        nds = max(nds, 1)
        ndc = max(ndc, 2)
        want_filter = True
        force_sd = True
    else:
        force_sd = False
    names = d.draw(
        st.lists(st.sampled_from(VAR_POOL), min_size=nds + ncs + ndc + ncc,
                 max_size=nds + ncs + ndc + ncc, unique=True)
    )
    it = iter(names)
    kinds = ["lin", "log"] if prof.p_log > 0 else ["lin"]

    def kind_pool():
        return ["log"] if d.bool(prof.p_log) else ["lin"]

    used_sizes = set()

    def dsize():
        n = d.int(2, prof.max_disc_size)
        if prof.distinct_sizes:
            for cand in [n, 2, 3, 4, 5, 6, 7]:
                if cand not in used_sizes:
                    n = cand
                    break
            used_sizes.add(n)
        return n

    def csize(lo, hi):
        n = d.int(lo, hi)
        if prof.distinct_sizes:
            for cand in [n, 3, 4, 5, 6, 7, 8, 9, 2]:
                if cand not in used_sizes and cand >= lo:
                    n = cand
                    break
            used_sizes.add(n)
        return n

    sdecl = d.perm(["ds"] * nds + ["cs"] * ncs)
    states = {}
    for kind in sdecl:
        nm = next(it)
        if kind == "ds":
            states[nm] = ("disc", dsize())
        else:
            g = _grid(d, kind_pool(), 2, prof.max_cont_state_nodes)
            states[nm] = g[:3] + (csize(2, prof.max_cont_state_nodes),) if prof.distinct_sizes else g
    cdecl = d.perm(["dc"] * ndc + ["cc"] * ncc)
    choices = {}
    for kind in cdecl:
        nm = next(it)
        if kind == "dc":
            choices[nm] = ("disc", dsize())
        else:
            choices[nm] = _grid(d, kind_pool(), prof.min_cont_choice_nodes, prof.max_cont_choice_nodes)

    # cap the number of state-choice points (reference enumerates the full product)
    def npoints():
        n = 1
        for g in list(states.values()) + list(choices.values()):
            n *= g[1] if g[0] == "disc" else g[3]
        return n

    guard = 0
    while npoints() > prof.max_points and guard < 50:
        guard += 1
        allv = {**{("s", k): v for k, v in states.items()}, **{("c", k): v for k, v in choices.items()}}
        (kind, nm), g = max(allv.items(), key=lambda kv: kv[1][1] if kv[1][0] == "disc" else kv[1][3])
        tgt = states if kind == "s" else choices
        if g[0] == "disc":
            tgt[nm] = ("disc", max(2, g[1] - 1))
        else:
            tgt[nm] = g[:3] + (max(2, g[3] - 1),)

    dstates = [s for s in states if states[s][0] == "disc"]
    cstates = [s for s in states if states[s][0] != "disc"]
    dchoices = [c for c in choices if choices[c][0] == "disc"]
    cchoices = [c for c in choices if choices[c][0] != "disc"]
    dvars = dstates + dchoices
    b.size = {
        **{k: v[1] for k, v in states.items() if v[0] == "disc"},
        **{k: v[1] for k, v in choices.items() if v[0] == "disc"},
    }
    size = b.size
    functions = b.functions
    params = b.params
    params["beta"] = d.num(0.3, 1.0, 3)
    if d.bool(0.08):
        # discount factors at and beyond 1 (growth-adjusted effective discounting; finite horizon)
        params["beta"] = d.choice([1.0, 1.25, 1.6])
    touched = set()  # states that enter utility / constraint / filter

    # --------------------------------------------------------------- filters
    R, RC = [], []
    filter_mode = None
    joint_targets = None  # (t, cell...) -> combos, for the 'drop' construction
    if want_filter and dstates:
        filter_mode = d.choice(prof.filter_modes)
        R = d.subset(dstates, 1, prof.max_R)
        R = [s for s in dstates if s in R]
        if force_sd:
            RC = d.subset(dchoices, 1, max(1, len(dchoices) - 1))
        else:
            RC = d.subset(dchoices, prof.min_RC, prof.max_RC)
        RC = [c for c in dchoices if c in RC]
        per = Tp > 1 and d.bool(prof.p_period_filter)
        if filter_mode == "drop":
            shp_s = tuple(size[s] for s in R)
            shp_c = tuple(size[c] for c in RC)
            Tn = T if per else 1
            # K_t: admissible restricted-state combinations per period (non-empty)
            K = d.table_bool(shp_s + (Tn,), 0.6)
            for t in range(Tn):
                if not K[..., t].any():
                    K[(0,) * len(shp_s) + (t,)] = True
            Cm = d.table_bool(shp_s + shp_c + (Tn,), 0.7)
            # at least the all-zero choice combination passes for kept states
            Cm[(slice(None),) * len(shp_s) + (0,) * len(shp_c) + (slice(None),)] = True
            Kb = K.reshape(shp_s + (1,) * len(shp_c) + (Tn,))
            tab = Kb & Cm
            if not per:
                tab = tab[..., 0]
            expr = b.table(R + RC, per, lambda shp, tab=tab: tab)
            functions["f0_filter"] = dict(args=R + RC + (["_period"] if per else []), body=expr)
            b.K = K if per else np.repeat(K, T, axis=-1)
        else:
            nf = d.int(1, 2)
            covered = set()
            for k in range(nf):
                st_ = d.subset(R, 1, len(R)) if k > 0 else list(R)
                ch_ = d.subset(RC, 0, len(RC)) if k > 0 else list(RC)
                st_ = [s for s in R if s in st_]
                ch_ = [c for c in RC if c in ch_]
                over = st_ + ch_
                perk = per and (k == 0 or d.bool(0.5))

                def g(shp, st_=st_, ch_=ch_):
                    m = d.table_bool(shp, 0.7)
                    if filter_mode == "keep_all":
                        idx = (slice(None),) * len(st_) + (0,) * len(ch_)
                        if len(shp) > len(st_) + len(ch_):
                            idx = idx + (slice(None),)
                        m[idx] = True
                    return m

                expr = b.table(over, perk, g)
                functions[f"f{k}_filter"] = dict(
                    args=over + (["_period"] if perk else []), body=expr
                )
                covered |= set(over)
            R = [s for s in R if s in covered]
            RC = [c for c in RC if c in covered]
        touched |= set(R)

    # ----------------------------------------------------- auxiliary functions
    aux_names = []
    if d.bool(prof.p_aux):
        n_aux = d.int(1, 2)
        pool = d.subset(AUX_POOL, n_aux, n_aux)
        for i, an in enumerate(pool):
            args, terms = [], []
            if dvars and d.bool(0.7):
                over = d.subset(dvars, 1, 2)
                terms.append(b.table(over, False, lambda shp: d.table_float(shp, -1, 1)))
                args += over
            if (cstates or cchoices) and d.bool(0.5):
                v = d.choice(cstates + cchoices)
                terms.append(f"{d.num(0.1, 0.9)} * xp.sqrt(xp.abs({v}) + 0.2)")
                args.append(v)
            if i > 0 and d.bool(0.6):
                terms.append(f"0.5 * {pool[0]}")
                args.append(pool[0])
            if Tp > 1 and d.bool(0.15):
                terms.append("0.1 * _period")
                args.append("_period")
            if not terms:
                terms.append("0.25")
            npar = d.int(1 if prof.every_function_has_params else 0, 2)
            pn = d.subset(PARAM_POOL, npar, npar)
            body = " + ".join(terms)
            for j, p in enumerate(pn):
                b.add_param(an, p, 0.5, 2.0)
                body = f"{p} * ({body})" if j == 0 else f"{body} + 0.3 * {p}"
                args.append(p)
            functions[an] = dict(args=list(dict.fromkeys(args)), body=body)
            aux_names.append(an)

    # -------------------------------------------------------------- constraints
    bonus_terms = []  # (expression without parameter names, variable/function args)
    nan_term = None
    if cchoices and d.bool(prof.p_budget):
        c = d.choice(cchoices)
        cmin = float(grid_nodes(choices[c])[0])
        args = [c]
        if cstates and d.bool(0.8):
            w = d.choice(cstates)
            gw, gc = states[w], choices[c]
            if d.bool(0.5) and gc[3] >= 2 and (gc[0] == "lin" or float(gw[1]) > 0):
                # the choice grid spans the state's range (consumption grid over the wealth range),
                # so that the constraint binds for most agents
                choices[c] = (gc[0], gw[1], gw[2], gc[3])
                cmin = float(grid_nodes(choices[c])[0])
            lhs = f"xp.maximum({w}, {cmin})"
            args.append(w)
            touched.add(w)
        else:
            cmax = float(grid_nodes(choices[c])[-1])
            lhs = f"{round(cmin + d.num(0.1, 1.0) * (cmax - cmin), 4)}"
        extra = ""
        if dvars and d.bool(0.3):
            over = d.subset(dvars, 1, 1)
            extra = " + " + b.table(over, False, lambda shp: d.table_float(shp, 0.0, 1.0))
            args += over
            touched |= set(over) & set(states)
        if aux_names and d.bool(0.25):
            extra += f" + 0.1 * xp.abs({aux_names[0]})"
            args.append(aux_names[0])
        var_args = list(dict.fromkeys(args))
        pexpr = pexpr_inl = ""
        if prof.every_function_has_params or d.bool(0.3):
            pn = d.choice(PARAM_POOL)
            b.add_param("budget_constraint", pn, 0.0, 0.5)
            pexpr = f" + xp.abs({pn})"
            pexpr_inl = f" + xp.abs({params['budget_constraint'][pn]!r})"
            args.append(pn)
        if d.bool(0.3):
            # lower-bound variant (c >= bound): the LARGEST grid point is always feasible, feasible
            # points come last on the grid
            cmax = float(grid_nodes(choices[c])[-1])
            margin = f"{c} - xp.minimum({lhs}{extra}{pexpr}, {cmax}) + 1.3e-06"
            margin_inl = f"{c} - xp.minimum({lhs}{extra}{pexpr_inl}, {cmax}) + 1.3e-06"
        else:
            margin = f"{lhs}{extra}{pexpr} - {c} + 1.3e-06"
            margin_inl = f"{lhs}{extra}{pexpr_inl} - {c} + 1.3e-06"
            if d.bool(0.45):
                # utility is NaN exactly where this constraint fails (log of a negative number),
                # as in log(resources - savings)
                nan_term = (f"0.05 * xp.log({margin_inl})", list(var_args))
        functions["budget_constraint"] = dict(
            args=list(dict.fromkeys(args)), body=f"{margin} >= 0", margin=margin
        )
        bonus_terms.append((f"(1.0 - 1.0 * ({margin_inl} >= 0))", var_args))
    # by construction: some discrete state labels have NO feasible choice in the LAST period only
    # (value -inf there; every earlier period keeps a feasible choice for every state)
    inf_last = bool(prof.p_infeasible_last) and T >= 2 and bool(dstates) and bool(dchoices) and d.bool(prof.p_infeasible_last)
    if dchoices and (inf_last or Tc != Tp or d.bool(prof.p_table_constraint)):
        ch_ = d.subset(dchoices, 1, 2)
        st_ = d.subset(dstates, 1 if inf_last else 0, 2)
        st_ = [s for s in dstates if s in st_]
        ch_ = [c for c in dchoices if c in ch_]
        if inf_last:
            # the table must cover every discrete choice, otherwise a state is never infeasible
            ch_ = list(dchoices)
        over = st_ + ch_
        perk = inf_last or (Tc > 1 and (Tc != Tp or d.bool(0.3)))
        free = (not inf_last) and d.bool(prof.free_constraints)

        def g(shp):
            m = d.table_bool(shp, prof.free_p_true if free else 0.7)
            if not free:
                idx = (slice(None),) * len(st_) + (0,) * len(ch_)
                if len(shp) > len(over):
                    idx = idx + (slice(None),)
                m[idx] = True
            if inf_last:
                n_comb = int(np.prod(shp[: len(st_)]))
                k = d.int(1, max(1, n_comb - 1))
                for r in range(k):
                    lab = np.unravel_index((d.int(0, n_comb - 1)), shp[: len(st_)])
                    m[tuple(lab) + (slice(None),) * len(ch_) + (shp[-1] - 1,)] = False
            return m

        expr = b.table(over, perk, g)
        cargs = over + (["_period"] if perk else [])
        functions["tab_constraint"] = dict(args=cargs, body=expr)
        touched |= set(st_)
        bonus_terms.append((f"(1.0 - 1.0 * {expr})", cargs))

    # ------------------------------------------------------------------ utility
    uargs, terms = [], []
    # a state that already enters a filter/constraint may stay out of utility
    u_states = [s for s in states if not (s in touched and d.bool(0.2))]
    u_dvars = [v for v in dvars if (v in u_states or v in dchoices)]
    if u_dvars:
        per = Tp > 1 and d.bool(0.35)
        terms.append(b.table(u_dvars, per, lambda shp: d.table_float(shp, -2, 2)))
        uargs += u_dvars
        if per:
            uargs.append("_period")
    for w in cstates:
        if w in u_states:
            terms.append(f"{d.num(0.1, 1)} * xp.sqrt(xp.abs({w}) + 0.1)")
            uargs.append(w)
    for c in cchoices:
        terms.append(f"{d.num(0.1, 1)} * xp.log(xp.abs({c}) + 0.5) - {d.num(0.01, 0.2)} * {c} * {c}")
        uargs.append(c)
    cs_in_u = [w for w in cstates if w in u_states]
    if cs_in_u and cchoices and d.bool(0.7):
        terms.append(f"{d.num(-0.3, 0.3)} * {cs_in_u[0]} * {cchoices[0]}")
    if len(cchoices) > 1 and d.bool(0.5):
        terms.append(f"{d.num(-0.2, 0.2)} * {cchoices[0]} * {cchoices[1]}")
    npar = d.int(1 if prof.every_function_has_params else 0, 2)
    for p in d.subset(PARAM_POOL, npar, npar):
        b.add_param("utility", p)
        terms.append(f"{p} * {d.num(0.1, 0.5)}" if not terms or d.bool(0.5) else f"{p} * 0.2 * ({terms[0]})")
        uargs.append(p)
    for an in aux_names:
        if d.bool(0.7):
            terms.append(f"{d.num(0.2, 0.8)} * {an}")
            uargs.append(an)
    if nan_term is not None:
        terms.append(nan_term[0])
        uargs += nan_term[1]
    if bonus_terms and d.bool(prof.p_bonus):
        # infeasible choices get the HIGHEST utility: a dropped mask changes V by O(1)
        for expr, a in bonus_terms:
            terms.append(f"25.0 * {expr}")
            uargs += a
    if not terms:
        terms.append("0.0")
    ubody = " + ".join(terms)
    if not any(a in states or a in choices or a in functions for a in uargs):
        # a utility of parameters/constants only would return a Python scalar, which is
        # outside the domain (user functions return JAX values)
        ubody = f"xp.asarray({ubody})"
    functions["utility"] = dict(args=list(dict.fromkeys(uargs)), body=ubody)

    # --------------------------------------------------------------- transitions
    joint = filter_mode == "drop" and T > 1
    if joint:
        # all restricted states get deterministic, period-dependent transitions over the
        # same arguments, with joint targets drawn from K_{t+1}
        over = list(R) + (d.subset([v for v in dvars if v not in R], 0, 1))
        shp = tuple(size[v] for v in over) + (T,)
        ncell = int(np.prod(shp[:-1]))
        tabs = {s: np.zeros(shp, dtype=int) for s in R}
        for t in range(T):
            Kn = b.K[..., min(t + 1, T - 1)]
            combos = np.argwhere(Kn)
            pick = d.ints(ncell, 0, 10_000)
            for cell in range(ncell):
                tgt = combos[pick[cell] % len(combos)]
                idx = np.unravel_index(cell, shp[:-1]) + (t,)
                for j, s in enumerate(R):
                    tabs[s][idx] = tgt[j]
        for s in R:
            expr = b.table(over, True, lambda shp_, s=s: tabs[s])
            functions[f"next_{s}"] = dict(args=over + ["_period"], body=expr)
    for s in dstates:
        if f"next_{s}" in functions:
            continue
        if prof.allow_stoch and d.bool(prof.p_stoch):
            pool = dvars + (["_period"] if Tp > 1 else [])
            deps = d.subset(pool, 1, 3)
            deps = d.perm(deps)
            shp = tuple(T if x == "_period" else size[x] for x in deps)
            P = d.simplex(shp, size[s])
            functions[f"next_{s}"] = dict(args=deps, body="None", stochastic=True)
            params.setdefault("shocks", {})[s] = P
        else:
            over = d.subset(dvars, 1, 2)
            per = Tp > 1 and d.bool(0.25)
            expr = b.table(over, per, lambda shp, n=size[s]: d.table_int(shp, n))
            functions[f"next_{s}"] = dict(args=over + (["_period"] if per else []), body=expr)
    for w in cstates:
        g = states[w]
        lo, hi = g[1], g[2]
        args = [w]
        e = f"{d.num(0.5, 1.1)} * {w}"
        if cchoices and d.bool(0.8):
            c = d.choice(cchoices)
            e += f" - {d.num(0.1, 0.8)} * {c}"
            args.append(c)
        if len(cstates) > 1 and d.bool(0.3):
            w2 = d.choice([x for x in cstates if x != w])
            e += f" + {d.num(-0.3, 0.3)} * {w2}"
            args.append(w2)
        if dvars and d.bool(0.6):
            over = d.subset(dvars, 1, 1)
            e += " + " + b.table(over, False, lambda shp: d.table_float(shp, -0.5, 1.0))
            args += over
        if aux_names and d.bool(0.3):
            an = d.choice(aux_names)
            e += f" + 0.2 * {an}"
            args.append(an)
        if Tp > 1 and d.bool(0.2):
            e += " + 0.05 * _period" if d.bool(0.5) else " + 0.04 * (_period - 2)"
            args.append("_period")
        if prof.every_function_has_params or d.bool(0.5):
            pn = d.choice(PARAM_POOL)
            b.add_param(f"next_{w}", pn, -0.2, 0.4)
            e += f" + {pn}"
            args.append(pn)
        if g[0] == "log" or d.bool(0.5):
            e = f"xp.clip({e}, {lo}, {hi})"
        functions[f"next_{w}"] = dict(args=list(dict.fromkeys(args)), body=e)

    # a constraint on the OUTPUT of a transition function (e.g. a borrowing constraint
    # next_wealth >= bound): the argument is a model function, not a parameter
    if cstates and prof.p_next_dependent_constraint and d.bool(prof.p_next_dependent_constraint):
        w = d.choice(cstates)
        g = states[w]
        bound = round(float(grid_nodes(g)[0]) - d.num(0.0, 0.6) * (float(grid_nodes(g)[-1]) - float(grid_nodes(g)[0])) * 0.2, 4)
        margin = f"next_{w} - {bound} + 1.7e-06"
        # the name may itself start with next_ (it is still a constraint: the suffix decides)
        cname = f"next_{w}_constraint" if d.bool(0.5) else "nextdep_constraint"
        functions[cname] = dict(args=[f"next_{w}"], body=f"{margin} >= 0", margin=margin)
    # near ties: a discrete choice whose only effect is a tiny utility difference, so that two
    # alternatives differ by far less than any sensible tolerance without being equal
    if prof.p_near_tie and d.bool(prof.p_near_tie):
        n = d.int(2, 3)
        eps = d.choice([1e-6, 1e-7, 3e-9])
        tname = f"TAB{b.ntab}"
        b.ntab += 1
        b.consts[tname] = d.table_int((n,), 7) - 3
        u = functions["utility"]
        u["args"] = u["args"] + ["xtie"]
        u["body"] = f"{u['body']} + {eps!r} * {tname}[xtie]"
        fl = [f for f in functions if f.endswith("_filter")]
        if fl and d.bool(0.6):
            f = functions[d.choice(fl)]
            f["args"] = f["args"] + ["xtie"]
            f["body"] = f"({f['body']}) & (xtie >= 0)"
        keys = list(choices)
        pos = d.int(0, len(keys))
        keys.insert(pos, "xtie")
        choices["xtie"] = ("disc", n)
        choices = {k: choices[k] for k in keys}
    for n in functions:
        params.setdefault(n, {})
    order = d.perm(list(functions))
    functions = {n: functions[n] for n in order}
    return Spec(T, states, choices, functions, b.consts, params)


# --------------------------------------------------------------------- agents
@st.composite
def raw_agents(draw, n_min=1, n_max=8, p_offgrid=0.5, p_outside=0.1):
    """Shrinkable raw material for initial states; materialised against a spec by
    ``materialise_agents``."""
    n = draw(st.integers(n_min, n_max))
    agents = []
    for _ in range(n):
        agents.append(
            {
                "combo": draw(st.integers(0, 999)),
                "disc": draw(st.lists(st.integers(0, 11), min_size=4, max_size=4)),
                "node": draw(st.lists(st.integers(0, 11), min_size=3, max_size=3)),
                "mode": draw(
                    st.lists(st.sampled_from(["on", "off", "off", "out"] if p_outside else ["on", "off"]),
                             min_size=3, max_size=3)
                ),
                "frac": draw(st.lists(st.integers(1, 999), min_size=3, max_size=3)),
            }
        )
    # per continuous state (flag read from the first agent): supply the initial values as an
    # INTEGER-typed array of whole numbers (e.g. wealth = [10, 25, 40]), which users do
    agents[0]["int_states"] = draw(st.lists(st.integers(0, 4).map(lambda x: x == 0), min_size=3, max_size=3))
    return agents


def materialise_agents(spec, ref, raw, on_grid_only=False, nodes_override=None):
    """raw agents -> dict state -> np.ndarray.  Discrete restricted parts are sampled from the
    period-0 space; continuous parts are grid nodes, interior off-grid points, or (linear
    grids only) points slightly outside the range."""
    sp_states, _, _, _, keep, _ = ref.layout(0)
    combos = np.argwhere(keep) if sp_states else None
    out = {s: [] for s in spec.states}
    for a in raw:
        if combos is not None:
            pick = combos[a["combo"] % len(combos)]
        di = ci = 0
        for s, g in spec.states.items():
            if g[0] == "disc":
                if combos is not None and s in sp_states:
                    out[s].append(int(pick[sp_states.index(s)]))
                else:
                    out[s].append(a["disc"][di % 4] % g[1])
                di += 1
            else:
                nodes = grid_nodes(g) if nodes_override is None else nodes_override[s]
                j = a["node"][ci % 3] % g[3]
                mode = "on" if on_grid_only else a["mode"][ci % 3]
                fr = a["frac"][ci % 3] / 1000.0
                if mode == "on":
                    v = float(nodes[j])
                elif mode == "off" or g[0] == "log":
                    v = float(nodes[0] + fr * (nodes[-1] - nodes[0]))
                else:
                    span = float(nodes[-1] - nodes[0])
                    v = float(nodes[0] - 0.3 * fr * span) if j % 2 == 0 else float(nodes[-1] + 0.3 * fr * span)
                out[s].append(v)
                ci += 1
    res = {
        s: np.asarray(v, dtype=(int if spec.states[s][0] == "disc" else float))
        for s, v in out.items()
    }
    flags = raw[0].get("int_states", [False] * 3) if raw else [False] * 3
    if not on_grid_only:
        ci = 0
        for s, g in spec.states.items():
            if g[0] == "disc":
                continue
            lo, hi = float(grid_nodes(g)[0]), float(grid_nodes(g)[-1])
            if flags[ci % 3] and np.ceil(lo) <= np.floor(hi):
                res[s] = np.clip(np.round(res[s]), np.ceil(lo), np.floor(hi)).astype(np.int64)
            ci += 1
    return res


def expand_agents(raw, n_total):
    """Deterministically expand a small list of raw agents to n_total agents (varying the raw
    material so that the batch is not a plain repetition)."""
    out = []
    for i in range(n_total):
        a = dict(raw[i % len(raw)])
        k = i // len(raw)
        a["combo"] = a["combo"] + 7 * k
        a["disc"] = [(x + k) % 12 for x in a["disc"]]
        a["node"] = [(x + 3 * k) % 12 for x in a["node"]]
        a["frac"] = [1 + (x * (k + 1) * 37) % 998 for x in a["frac"]]
        out.append(a)
    if raw and "int_states" in raw[0]:
        out[0]["int_states"] = raw[0]["int_states"]
    return out

"""Shared simulation oracle for C02, C03, C06, C08, C13 (DESIGN.md sections 4.5, 5)."""
from __future__ import annotations

import numpy as np

from .ir import grid_nodes, to_lcm_model, to_lcm_params
from .runner import call_lcm

TOL = 1e-9


def get_functions(spec, targets=("solve", "simulate", "solve_and_simulate"), jit=True):
    from lcm.entry_point import get_lcm_function

    model = to_lcm_model(spec)
    out = {"model": model}
    for t in targets:
        fn, tmpl = call_lcm(get_lcm_function, model, targets=t, jit=jit, debug_mode=False)
        out[t] = fn
        out["template"] = tmpl
    return out


def to_jax_states(init):
    import jax.numpy as jnp

    return {k: jnp.asarray(v) for k, v in init.items()}


def simulate(fns, spec, init, seed, vf_arr_list=None, additional_targets=None, params=None):
    """vf_arr_list given -> target 'simulate'; else 'solve_and_simulate'."""
    params = to_lcm_params(spec) if params is None else params
    kw = {}
    if additional_targets is not None:
        kw["additional_targets"] = additional_targets
    if vf_arr_list is not None:
        return call_lcm(
            fns["simulate"], params, initial_states=to_jax_states(init),
            vf_arr_list=list(vf_arr_list), seed=seed, **kw,
        )
    return call_lcm(
        fns["solve_and_simulate"], params, initial_states=to_jax_states(init), seed=seed, **kw
    )


def close(a, b, tol=TOL):
    return abs(a - b) <= tol * max(1.0, abs(a), abs(b))


def invalid_labels(spec, row, names):
    """Discrete variables in a frame row whose value is not a label of the grid (possible only
    if the code under test is wrong; the oracle must not index its tables with them)."""
    bad = []
    for v in names:
        g = spec.variables[v]
        if g[0] == "disc":
            x = float(row[v])
            if not np.isfinite(x) or x != int(x) or not (0 <= int(x) < g[1]):
                bad.append(f"{v}={x!r} is not a label of its grid (0..{g[1] - 1})")
    return bad


def choice_index(spec, ref, row):
    """Map reported choice values to grid indices. Returns (idx tuple, list of problems)."""
    idx, probs = [], []
    for k, c in enumerate(ref.choice_names):
        g = spec.choices[c]
        v = float(row[c])
        nodes = ref.cgrids[k]
        if g[0] == "disc":
            if v != int(v) or not (0 <= int(v) < g[1]):
                probs.append(f"choice {c}={v!r} is not a label of its grid")
                idx.append(0)
            else:
                idx.append(int(v))
        else:
            j = int(np.argmin(np.abs(nodes - v)))
            if not abs(nodes[j] - v) <= 1e-12 * max(1.0, abs(v)):
                probs.append(f"choice {c}={v!r} is not a grid node (nearest {nodes[j]!r})")
            idx.append(j)
    return tuple(idx), probs


def vfull_list(ref, vf_arrs):
    """lcm-layout arrays -> reference full-product arrays."""
    return [ref.from_lcm_layout(a, t) for t, a in enumerate(vf_arrs)]


def check_rows(spec, ref, df, vfull, n_agents, tol=TOL):
    """C02 oracle. vfull: list (per period) of value arrays in the reference layout that the
    simulation used.  Returns (messages, counters, nontrivial_rows:set)."""
    T = spec.n_periods
    msgs = []
    cnt = {"rows": 0, "rows_checked": 0, "rows_skipped_infeasible": 0, "rows_skipped_knife_edge": 0,
           "rows_offgrid": 0, "rows_nontrivial": 0}
    nt_rows = set()
    nc = len(ref.choice_names)
    for t in range(T):
        V_next = None if t == T - 1 else vfull[t + 1]
        for i in range(n_agents):
            cnt["rows"] += 1
            row = df.loc[(t, i)]
            states = {s: row[s] for s in spec.states}
            bad = invalid_labels(spec, row, list(spec.states))
            if bad:
                msgs.append(f"(t={t}, agent={i}): state " + "; ".join(bad))
                continue
            if not all(np.isfinite(float(v)) for v in states.values()):
                cnt["rows_skipped_infeasible"] += 1
                continue
            if not ref.in_space(states, t):
                # outside the property's domain (can only follow an infeasible/ambiguous row)
                cnt["rows_skipped_infeasible"] += 1
                continue
            q, f, amb = ref.q_at(states, t, V_next)
            qm = np.where(f, q, -np.inf)
            with np.errstate(invalid="ignore"):
                best = float(qm.max()) if nc else float(qm)
            if amb.any():
                lo = np.where(f & ~amb, q, -np.inf)
                hi = np.where(f | amb, q, -np.inf)
                if float(lo.max() if nc else lo) != float(hi.max() if nc else hi):
                    cnt["rows_skipped_knife_edge"] += 1
                    continue
            if not np.isfinite(best):
                cnt["rows_skipped_infeasible"] += 1
                continue
            cnt["rows_checked"] += 1
            offgrid = any(
                g[0] != "disc" and not np.any(np.abs(grid_nodes(g) - float(states[s])) <= 1e-12 * max(1.0, abs(float(states[s]))))
                for s, g in spec.states.items()
            )
            cnt["rows_offgrid"] += int(offgrid)
            idx, probs = choice_index(spec, ref, row)
            where = f"(t={t}, agent={i}, states={ {k: float(v) for k, v in states.items()} })"
            if probs:
                msgs.append(f"{where}: " + "; ".join(probs))
                continue
            if nc and not f[idx] and not amb[idx]:
                msgs.append(f"{where}: reported choice {dict(row[ref.choice_names])} is infeasible")
                continue
            qsel = float(q[idx]) if nc else float(q)
            sc = max(1.0, abs(best))
            if not qsel >= best - tol * sc:
                msgs.append(
                    f"{where}: reported choice {dict(row[ref.choice_names])} has Q={qsel!r} < max feasible Q={best!r}"
                )
            if not close(float(row["value"]), best, tol):
                msgs.append(f"{where}: value {float(row['value'])!r} != max feasible Q {best!r}")
            # non-triviality
            if nc:
                feas_q = qm[np.isfinite(qm)]
                if feas_q.size >= 2 and feas_q.max() - feas_q.min() > 100 * tol * sc:
                    am = np.unravel_index(int(np.argmax(qm)), qm.shape)
                    if any(a != 0 for a in am):
                        nt_rows.add((t, i))
                        cnt["rows_nontrivial"] += 1
    return msgs, cnt, nt_rows


def check_law_of_motion(spec, ref, df, init, n_agents):
    """C03 oracle. Returns (messages, counters)."""
    T = spec.n_periods
    msgs = []
    cnt = {"pairs": 0, "pairs_nontrivial": 0, "stoch_draws": 0, "stoch_draws_nontrivial": 0}
    # period 0 = supplied initial states (exact after dtype cast)
    for s in spec.states:
        col = np.asarray(df.loc[0][s])
        exp = np.asarray(init[s])
        if col.shape != exp.shape or not np.array_equal(col.astype(exp.dtype), exp):
            msgs.append(f"period-0 column {s} {col.tolist()} != supplied initial states {exp.tolist()}")
    allv = spec.variables
    for t in range(T - 1):
        for i in range(n_agents):
            row, nxt = df.loc[(t, i)], df.loc[(t + 1, i)]
            bad = invalid_labels(spec, row, list(allv)) + invalid_labels(spec, nxt, list(spec.states))
            if bad:
                msgs.append(f"(t={t}, agent={i}): " + "; ".join(bad[:3]))
                continue
            if not all(np.isfinite(float(row[v])) for v in allv):
                continue
            env = {
                v: (np.asarray(int(round(float(row[v])))) if allv[v][0] == "disc" else np.asarray(float(row[v])))
                for v in allv
            }
            cache = {}
            cnt["pairs"] += 1
            nontrivial = False
            for s in spec.states:
                got = float(nxt[s])
                if s in ref.stoch:
                    deps = spec.functions[f"next_{s}"]["args"]
                    P = np.asarray(spec.params["shocks"][s], dtype=float)
                    ix = tuple(int(t if dn == "_period" else int(round(float(row[dn])))) for dn in deps)
                    cnt["stoch_draws"] += 1
                    prow = P[ix]
                    if (prow == 0).any():
                        cnt["stoch_draws_nontrivial"] += 1
                        nontrivial = True
                    if got != int(got) or not (0 <= int(got) < spec.states[s][1]):
                        msgs.append(f"(t={t}, agent={i}) next {s}={got!r} is not a label of its grid")
                    elif not prow[int(got)] > 0:
                        msgs.append(
                            f"(t={t}, agent={i}) stochastic state {s}: label {int(got)} drawn with probability 0 "
                            f"(row {prow.tolist()} selected by {dict(zip(deps, ix))})"
                        )
                else:
                    e = float(ref.ev(f"next_{s}", env, t, cache))
                    if spec.states[s][0] == "disc":
                        ok = got == e
                    else:
                        ok = abs(e - got) <= 1e-12 * max(1.0, abs(e)) + 1e-13
                    if not ok:
                        msgs.append(
                            f"(t={t}, agent={i}) next_{s}: law of motion gives {e!r}, frame has {got!r}"
                        )
                    if e != float(row[s]) or any(a in spec.choices for a in spec.ancestors(f"next_{s}")):
                        nontrivial = True
            cnt["pairs_nontrivial"] += int(nontrivial)
    return msgs, cnt


def frames_equal(a, b, float_tol=1e-12):
    """Column-wise comparison of two frames; returns list of messages."""
    msgs = []
    if list(a.columns) != list(b.columns):
        if set(a.columns) != set(b.columns):
            return [f"columns differ: {list(a.columns)} vs {list(b.columns)}"]
    if not a.index.equals(b.index):
        return ["index differs"]
    for c in a.columns:
        x, y = np.asarray(a[c]), np.asarray(b[c])
        if x.dtype.kind == "f" or y.dtype.kind == "f":
            x = x.astype(float)
            y = y.astype(float)
            same_nan = np.array_equal(np.isnan(x), np.isnan(y))
            fin = np.isfinite(x) & np.isfinite(y)
            ok = same_nan and np.array_equal(x[~fin & ~np.isnan(x)], y[~fin & ~np.isnan(y)]) and bool(
                np.all(np.abs(x[fin] - y[fin]) <= float_tol * np.maximum(1.0, np.abs(x[fin])))
            )
        else:
            ok = np.array_equal(x, y)
        if not ok:
            bad = np.argwhere(~(x == y)).reshape(-1)[:3].tolist()
            msgs.append(f"column {c} differs at rows {bad}: {x[bad].tolist()} vs {y[bad].tolist()}")
    return msgs


def explain_difference(spec, ref, df_a, df_b, vfull, pairs, periods=None, float_tol=1e-12):
    """Tie-aware comparison of agents' paths in two frames.  pairs: list of (index in a, index
    in b).  For each pair the first period with a difference is examined: a difference in a
    STATE column while all earlier rows agree can never be a tie (the law of motion is a
    function of the earlier row) -> violation; a difference in choices/value is accepted only if
    the oracle finds both reported choices feasible and tolerance-optimal and the values agree
    to 1e-9 (tie).  Returns (messages, n_ties)."""
    T = spec.n_periods
    periods = range(T) if periods is None else periods
    msgs, ties = [], 0
    state_cols = list(spec.states)
    other_cols = ["value", *spec.choices]
    for ia, ib in pairs:
        for t in periods:
            ra, rb = df_a.loc[(t, ia)], df_b.loc[(t, ib)]

            def differs(c):
                x, y = float(ra[c]), float(rb[c])
                if (x == y) or (np.isnan(x) and np.isnan(y)):
                    return False
                is_float = c == "value" or spec.variables.get(c, ("disc",))[0] != "disc"
                return not (is_float and abs(x - y) <= float_tol * max(1.0, abs(x)))

            ds = [c for c in state_cols if differs(c)]
            if ds:
                msgs.append(f"agent {ia}/{ib}, period {t}: state columns {ds} differ ({[float(ra[c]) for c in ds]} vs {[float(rb[c]) for c in ds]}) although all earlier rows agree")
                break
            do = [c for c in other_cols if differs(c)]
            if not do:
                continue
            # same state, different decision: genuine tie?
            ok = True
            if abs(float(ra["value"]) - float(rb["value"])) > 1e-9 * max(1.0, abs(float(ra["value"]))):
                ok = False
            else:
                states = {s_: ra[s_] for s_ in spec.states}
                V_next = None if t == T - 1 else vfull[t + 1]
                q, f, amb = ref.q_at(states, t, V_next)
                qm = np.where(f, q, -np.inf)
                best = float(qm.max()) if q.shape else float(qm)
                for r in (ra, rb):
                    idx, probs = choice_index(spec, ref, r)
                    if probs or (q.shape and not f[idx]) or not (float(q[idx] if q.shape else q) >= best - 1e-9 * max(1.0, abs(best))):
                        ok = False
            if ok:
                ties += 1
            else:
                msgs.append(f"agent {ia}/{ib}, period {t}: columns {do} differ ({[float(ra[c]) for c in do]} vs {[float(rb[c]) for c in do]}) and this is not a tie between equally good choices")
            break  # after the first difference the paths are not comparable
    return msgs, ties

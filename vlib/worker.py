"""Worker process entry point (kept separate from runner.py so that classes defined in
vlib.runner have a single identity)."""
import sys

from vlib.runner import worker_main

if __name__ == "__main__":
    sys.exit(worker_main(sys.argv[1:]))

#!/usr/bin/env python3
"""Process a batch of seeded changes produced by sub-agents (developer tool).

    tools/seed_batch.py C04c C09c ...        # copy /tmp/seed_<id>_out -> seeded/<id>, confirm, detect

For each id: copy patch.diff/demo.py/meta.json, confirm independently (tools/confirm_seed.sh,
3 in parallel), run the check of the seeded change's property against the patch
(tools/mutant.py), record everything in seeded/<id>/meta.json and print a summary."""
import json
import os
import re
import shutil
import subprocess
import sys
from concurrent.futures import ThreadPoolExecutor

ROOT = os.path.dirname(os.path.dirname(os.path.abspath(__file__)))
HOW_C = ("tools/confirm_seed.sh: fresh scratch worktree of /repo HEAD, git apply patch.diff, full pytest run with "
         "PYTHONPATH=<worktree>/src, demo.py with and without the change, worktree removed")
HOW_D = "tools/mutant.py seeded/<ID>/patch.diff <checks>: patch applied to a scratch copy of /repo/src, quick tier, VERIF_SEED=1"


def confirm(sid):
    out = subprocess.run([os.path.join(ROOT, "tools", "confirm_seed.sh"), sid, f"/tmp/seed_{sid}_out"],
                         capture_output=True, text=True).stdout.strip().splitlines()
    try:
        return sid, json.loads(out[-1])
    except Exception:  # noqa: BLE001
        return sid, {"applies": False, "raw": out[-3:]}


def main():
    ids = sys.argv[1:]
    only_detect = "--detect-only" in ids
    only_confirm = "--confirm-only" in ids
    ids = [i for i in ids if not i.startswith("--")]
    for sid in ([] if (only_detect or only_confirm) else ids):
        d = os.path.join(ROOT, "seeded", sid)
        os.makedirs(d, exist_ok=True)
        for f in ("patch.diff", "demo.py", "meta.json"):
            src = f"/tmp/seed_{sid}_out/{f}"
            if os.path.exists(src):
                shutil.copy(src, d)
    conf = {}
    if not only_detect:
        with ThreadPoolExecutor(3) as ex:
            for sid, c in ex.map(confirm, ids):
                conf[sid] = c
                print("CONFIRM", sid, json.dumps(c)[:200], flush=True)
    for sid in ids:
        d = os.path.join(ROOT, "seeded", sid)
        m = json.load(open(os.path.join(d, "meta.json")))
        prop = re.match(r"(C\d+)", sid).group(1)
        m["property"] = prop
        if only_confirm:
            c = conf[sid]
            m["confirmed_by_maintainer_of_verif"] = {
                "how": HOW_C, "patch_applies": c.get("applies"), "pytest_summary": c.get("pytest_summary"),
                "failed_tests": (c.get("failed") or "").strip(),
                "only_preexisting_environment_failures": (c.get("failed") or "").count("FAILED") == 3,
                "demo_rc_with_change": c.get("demo_rc_with_change"), "demo_rc_without_change": c.get("demo_rc_without_change"),
            }
            json.dump(m, open(os.path.join(d, "meta.json"), "w"), indent=1)
            continue
        r = subprocess.run([os.path.join(ROOT, "tools", "mutant.py"), os.path.join(d, "patch.diff"), prop],
                           capture_output=True, text=True)
        line = next((l for l in r.stdout.splitlines() if "patch.diff" in l), r.stdout[-200:])
        verdict = "KILLED" if "KILLED" in line else "SURVIVED" if "SURVIVED" in line else "HARNESS-ERROR"
        detail = next((l.strip() for l in r.stdout.splitlines() if "bucket=" in l), "")
        print("DETECT", sid, prop, verdict, detail[:220], flush=True)
        if verdict == "HARNESS-ERROR":
            print(r.stdout[-1500:])
        if sid in conf:
            c = conf[sid]
            m["confirmed_by_maintainer_of_verif"] = {
                "how": HOW_C, "patch_applies": c.get("applies"), "pytest_summary": c.get("pytest_summary"),
                "failed_tests": (c.get("failed") or "").strip(),
                "only_preexisting_environment_failures": (c.get("failed") or "").count("FAILED") == 3,
                "demo_rc_with_change": c.get("demo_rc_with_change"), "demo_rc_without_change": c.get("demo_rc_without_change"),
            }
        m.setdefault("detection", {})
        m["detection"].update({"how": HOW_D, "first_run": {"check": prop, "verdict": verdict, "detail": detail[:300]}})
        json.dump(m, open(os.path.join(d, "meta.json"), "w"), indent=1)


if __name__ == "__main__":
    main()

#!/usr/bin/env python3
"""Run every mutants/*.patch against the checks named in its '# props:' header.
usage: tools/mutation_audit.py [--only SUBSTR] [--tier quick] [--out file]"""
import argparse
import glob
import json
import os
import subprocess
import sys
import time

ROOT = os.path.dirname(os.path.dirname(os.path.abspath(__file__)))
ap = argparse.ArgumentParser()
ap.add_argument("--only", default="")
ap.add_argument("--tier", default="quick")
ap.add_argument("--out", default=os.path.join(ROOT, "mutants", "audit_results.json"))
a = ap.parse_args()
res = {}
if os.path.exists(a.out):
    res = json.load(open(a.out))
for patch in sorted(glob.glob(os.path.join(ROOT, "mutants", "*.patch"))):
    name = os.path.basename(patch)[:-6]
    if a.only and a.only not in name:
        continue
    head = open(patch).readline()
    props = head.replace("# props:", "").split() if head.startswith("# props:") else []
    if not props:
        continue
    for pid in props:
        key = f"{name}:{pid}"
        if key in res and res[key]["verdict"] in ("KILLED", "SURVIVED"):
            continue
        t0 = time.time()
        r = subprocess.run([os.path.join(ROOT, "tools", "mutant.py"), patch, pid, "--tier", a.tier], capture_output=True, text=True)
        line = next((l for l in r.stdout.splitlines() if name in l), r.stdout[-300:])
        verdict = "KILLED" if "KILLED" in line else "SURVIVED" if "SURVIVED" in line else "HARNESS-ERROR" if "HARNESS" in line else "?"
        bucket = next((l.strip() for l in r.stdout.splitlines() if "bucket=" in l), "")
        res[key] = {"verdict": verdict, "seconds": round(time.time() - t0), "detail": bucket[:300]}
        print(key, verdict, res[key]["seconds"], "s", bucket[:160], flush=True)
        if verdict not in ("KILLED", "SURVIVED"):
            print(r.stdout[-1500:], flush=True)
        json.dump(res, open(a.out, "w"), indent=1)

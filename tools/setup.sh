#!/bin/sh
# Offline set-up: verify the imports the checks need; install hypothesis from the offline
# wheelhouse into /verif/.deps only if /venv lacks it.
cd "$(dirname "$0")/.."
PY=/venv/bin/python
if ! $PY -c "import hypothesis" 2>/dev/null; then
  /venv/bin/pip install --no-index --find-links /opt/veriftools/wheels --target .deps hypothesis || exit 1
fi
PYTHONPATH=".deps:$PYTHONPATH" $PY - <<'PY' || exit 1
import sys
sys.path.insert(0, ".")
import hypothesis, numpy, scipy, pandas, jax, dags
from vlib import compat
compat.setup()
import lcm.entry_point
print("setup ok: hypothesis", hypothesis.__version__, "jax", jax.__version__)
PY
chmod +x check

#!/bin/sh
# tools/confirm_seed.sh <ID> <dir with patch.diff demo.py meta.json>
# Confirms a seeded change independently in a fresh scratch worktree: patch applies, the
# existing suite still passes (only the 3 pre-existing environment failures), the demo fails
# with the change and passes without it. Prints a JSON line and removes the worktree.
ID=$1; SRC=$2; WT=/tmp/confirm_$ID
git -C /repo worktree remove --force $WT 2>/dev/null
git -C /repo worktree add -q $WT HEAD || exit 2
cd $WT && git apply $SRC/patch.diff || { echo "{\"id\":\"$ID\",\"applies\":false}"; git -C /repo worktree remove --force $WT; exit 1; }
PYTHONPATH=$WT/src /venv/bin/python -m pytest -q -p no:cacheprovider --timeout=900 tests > /tmp/confirm_$ID.pytest.log 2>&1
FAILED=$(grep -E "^FAILED" /tmp/confirm_$ID.pytest.log | sed 's/ - .*//' | sort | tr '\n' ' ')
SUMMARY=$(tail -1 /tmp/confirm_$ID.pytest.log)
cd /tmp && PYTHONPATH=$WT/src /venv/bin/python $SRC/demo.py > /tmp/confirm_$ID.demo_with.log 2>&1; RC_WITH=$?
PYTHONPATH=/repo/src /venv/bin/python $SRC/demo.py > /tmp/confirm_$ID.demo_without.log 2>&1; RC_WITHOUT=$?
git -C /repo worktree remove --force $WT
echo "{\"id\":\"$ID\",\"applies\":true,\"pytest_summary\":\"$SUMMARY\",\"failed\":\"$FAILED\",\"demo_rc_with_change\":$RC_WITH,\"demo_rc_without_change\":$RC_WITHOUT}"

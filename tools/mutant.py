#!/usr/bin/env python3
"""Sensitivity audit helper (developer tool, not a registered check).

    tools/mutant.py <patch> <ID> [<ID> ...] [--tier quick] [--n N] [--seed S]

Copies /repo/src to a scratch directory outside /repo and /verif, applies the patch there,
runs the given checks against the copy (LCM_SRC=...), reports killed / survived and removes
the copy.  Evidence files are not touched (VERIF_NO_EVIDENCE=1).
"""
import argparse
import os
import shutil
import subprocess
import sys
import tempfile
import time

ROOT = os.path.dirname(os.path.dirname(os.path.abspath(__file__)))


def main():
    ap = argparse.ArgumentParser()
    ap.add_argument("patch")
    ap.add_argument("ids", nargs="+")
    ap.add_argument("--tier", default="quick")
    ap.add_argument("--n", type=int)
    ap.add_argument("--seed", type=int, default=1)
    a = ap.parse_args()
    scratch = tempfile.mkdtemp(prefix="lcm-mut-")
    try:
        shutil.copytree("/repo/src", os.path.join(scratch, "src"))
        r = subprocess.run(["patch", "-p1", "-s", "-d", scratch, "-i", os.path.abspath(a.patch)])
        if r.returncode != 0:
            print("PATCH-FAILED", a.patch)
            return 3
        env = dict(os.environ, LCM_SRC=os.path.join(scratch, "src"), VERIF_NO_EVIDENCE="1",
                   VERIF_SEED=str(a.seed))
        rc_all = 0
        for pid in a.ids:
            cmd = [os.path.join(ROOT, "check"), pid, "--tier", a.tier]
            if a.n:
                cmd += ["--n", str(a.n)]
            t0 = time.time()
            r = subprocess.run(cmd, cwd=ROOT, env=env, capture_output=True, text=True)
            lines = [l for l in r.stdout.splitlines() if l.startswith(("VIOLATION", "  bucket", "OK", "HARNESS", "KNOWN"))]
            verdict = {0: "SURVIVED", 1: "KILLED", 2: "HARNESS-ERROR"}.get(r.returncode, f"rc={r.returncode}")
            print(f"{os.path.basename(a.patch)} {pid}: {verdict} in {time.time()-t0:.0f}s")
            for l in lines[:4]:
                print("   ", l[:300])
            if r.returncode == 2:
                print(r.stdout[-1500:])
        return rc_all
    finally:
        shutil.rmtree(scratch, ignore_errors=True)


if __name__ == "__main__":
    sys.exit(main())

#!/venv/bin/python
"""Regenerate MANIFEST.json from the property modules (keeps it valid at all times)."""
import importlib
import json
import os
import sys

ROOT = os.path.dirname(os.path.dirname(os.path.abspath(__file__)))
sys.path.insert(0, ROOT)

props = [json.loads(l) for l in open(os.path.join(ROOT, "properties.jsonl"))]
checks, na = [], []
for p in props:
    pid = p["id"]
    path = os.path.join(ROOT, "vlib", "props", pid.lower() + ".py")
    if not os.path.exists(path):
        na.append({"property_id": pid, "reason": "check not built yet in this round (planned in DESIGN.md section 5); not a limit of the technique"})
        continue
    mod = importlib.import_module(f"vlib.props.{pid.lower()}")
    checks.append(
        {
            "property_id": pid,
            "quick_cmd": f"./check {pid} --tier quick",
            "thorough_cmd": f"./check {pid} --tier thorough",
            "evidence_file": f"evidence/{pid}.json",
            "replay_cmd_template": f"./check {pid} --replay {{path}}",
            "engine": "hypothesis-runner",
            "level_claimed": {
                "category": "exploration",
                "text": mod.LEVEL_TEXT,
                "design_ref": f"DESIGN.md section 5, {pid}",
            },
            "level_note": "; ".join(mod.ASSUMPTIONS),
            "technique": mod.TECHNIQUE,
        }
    )
man = {
    "version": 1,
    "setup_cmd": "sh tools/setup.sh",
    "hooks": {
        "guard": "LCM_VERIF",
        "enable": "no instrumentation of lcm is needed: checks import the working tree from /repo/src (LCM_SRC overrides) and set LCM_VERIF=1 only as a marker",
        "baseline_off_cmd": "cd /repo && /venv/bin/python -m pytest -ra -q -p no:cacheprovider --timeout=900 --continue-on-collection-errors",
        "source_commits": [],
        "add_only": True,
    },
    "engines": [
        {
            "name": "hypothesis-runner",
            "path": "vlib/runner.py",
            "serves_properties": [c["property_id"] for c in checks],
            "kind_free_text": "property-based testing: Hypothesis strategies over model specifications / arrays / signatures, sharded over 16 worker processes, explicit oracles (NumPy reference model, metamorphic relations, validity predicates), replay files",
        }
    ],
    "checks": checks,
    "not_applicable": na,
    "notes": "All checks: ./check <ID> --tier quick|thorough, VERIF_SEED honoured, exit 0/1/2 (2 = harness error, never a violation). Known findings: known_findings.json.",
}
with open(os.path.join(ROOT, "MANIFEST.json"), "w") as f:
    json.dump(man, f, indent=1)
print("checks:", [c["property_id"] for c in checks], "na:", [n["property_id"] for n in na])

#!/bin/sh
# Run every registered check once (developer convenience). usage: tools/run_all.sh [quick|thorough] [seed]
cd "$(dirname "$0")/.."
TIER=${1:-quick}; SEED=${2:-1}
for p in C01 C02 C03 C04 C05 C06 C07 C08 C09 C10 C11 C12 C13 C14 C15 C16 C17 C18 C19 C20; do
  VERIF_SEED=$SEED ./check $p --tier $TIER 2>&1 | grep -E "^(OK|VIOLATION|HARNESS|  bucket)"
done

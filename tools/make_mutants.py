#!/usr/bin/env python3
"""Generate mutants/*.patch from (file, old, new) edits against /repo/src (developer tool).
Each patch's first line is a comment '# props: C01 C05' naming the checks expected to kill it."""
import difflib
import os
import sys

ROOT = os.path.dirname(os.path.dirname(os.path.abspath(__file__)))
M = []


def m(name, file, old, new, props):
    M.append((name, file, old, new, props))


F = "src/lcm/"
m("M02_beta_times_u_plus_ccv", F + "model_functions.py", 'big_u = u + kwargs["params"]["beta"] * ccv', 'big_u = kwargs["params"]["beta"] * (u + ccv)', "C01 C11 C02")
m("M03_expectation_without_weights", F + "model_functions.py", "ccv = (ccvs_at_nodes * node_weights).sum()", "ccv = ccvs_at_nodes.mean()", "C01")
m("M04_next_state_period_plus_one", F + "model_functions.py", """            _next_state = next_state(
                **states,
                **choices,
                _period=period,""", """            _next_state = next_state(
                **states,
                **choices,
                _period=period + 1,""", "C01")
m("M05_weights_summed", F + "model_functions.py", "return jnp.prod(jnp.array(args))", "return jnp.sum(jnp.array(args))", "C01")
m("M06_max_initial_zero", F + "entry_point.py", "        return u.max(where=f, initial=-jnp.inf)", "        return u.max(where=f, initial=0.0)", "C01")
m("M07_solve_mask_dropped", F + "entry_point.py", "        return u.max(where=f, initial=-jnp.inf)", "        return u.max()", "C01")
m("M09_policy_mask_dropped", F + "entry_point.py", "        _argmax, _max = argmax(u, where=f, initial=-jnp.inf)", "        _argmax, _max = argmax(u)", "C02")
m("M10_ndimage_clip_n_minus_1", F + "ndimage.py", "0, input_size - 2).astype", "0, input_size - 1).astype", "C15 C14 C01")
m("M11_ndimage_ceil", F + "ndimage.py", "jnp.clip(jnp.floor(coordinate)", "jnp.clip(jnp.ceil(coordinate)", "C15 C14")
m("M12_ndimage_swapped_weights", F + "ndimage.py", "return [(lower_index, lower_weight), (lower_index + 1, upper_weight)]", "return [(lower_index, upper_weight), (lower_index + 1, lower_weight)]", "C15 C14 C01")
m("M13_linspace_coordinate_n", F + "grid_helpers.py", """    step_length = (stop - start) / (n_points - 1)
    return (value - start) / step_length""", """    step_length = (stop - start) / n_points
    return (value - start) / step_length""", "C15 C14 C01")
m("M14_log_coordinate_linear_in_logspace", F + "grid_helpers.py", "    return rank_lower_gridpoint + decimal_part", "    return coordinate_in_linear_space + 0 * decimal_part", "C15 C14 C01")
m("M16_start_equal_stop_accepted", F + "grids.py", "valid_stop_type and start >= stop:", "valid_stop_type and start > stop:", "C16")
m("M17_zero_points_accepted", F + "grids.py", "not isinstance(n_points, int) or n_points < 1:", "not isinstance(n_points, int) or n_points < 0:", "C16 C12")
m("M18_discrete_codes_any_order", F + "grids.py", "    if values != list(range(len(values))):", "    if sorted(values) != list(range(len(values))):", "C16")
m("M20_feasible_state_all", F + "state_space.py", "    is_feasible_state = mask.any(axis=choice_axes)", "    is_feasible_state = mask.all(axis=choice_axes)", "C17 C01")
m("M21_indexer_fill_zero", F + "state_space.py", "def create_indexers_and_segments(mask, n_sparse_states, fill_value=-1):", "def create_indexers_and_segments(mask, n_sparse_states, fill_value=0):", "C17")
m("M22_meshgrid_xy", F + "state_space.py", '    _all_combis = jnp.meshgrid(*_grids.values(), indexing="ij")', '    _all_combis = jnp.meshgrid(*_grids.values(), indexing="xy")', "C17 C01")
m("M23_filters_or", F + "state_space.py", """        targets=_filter_names,
        aggregator=jnp.logical_and,""", """        targets=_filter_names,
        aggregator=jnp.logical_or,""", "C17 C01")
m("M24_cont_states_before_dense_discrete", F + "input_processing/util.py", """    order += info.query("is_dense & is_discrete & is_state").index.tolist()
    order += info.query("is_dense & is_discrete & is_choice").index.tolist()
    order += info.query("is_dense & is_continuous & is_state").index.tolist()""", """    order += info.query("is_dense & is_discrete & is_choice").index.tolist()
    order += info.query("is_dense & is_discrete & is_state").index.tolist()
    order += info.query("is_dense & is_continuous & is_state").index.tolist()""", "C05 C17 C01")
m("M25_params_merged_across_functions", F + "input_processing/process_model.py", '        return func(**_kwargs, **kwargs["params"][name])', """        merged = {}
        for _d in kwargs["params"].values():
            if isinstance(_d, dict):
                merged.update({k: v for k, v in _d.items() if k in params[name]})
        return func(**_kwargs, **merged)""", "C07 C01")
m("M26_shock_indices_reversed", F + "input_processing/process_model.py", '        return params["shocks"][name][*indices]', '        return params["shocks"][name][*indices[::-1]]', "C01 C03 C04")
m("M27_function_names_become_params", F + "input_processing/create_params_template.py", """    variables = {
        *model.functions,
        *model.choices,""", """    variables = {
        *[f for f in model.functions if f.startswith("next_") or f == "utility"],
        *model.choices,""", "C07")
m("M28_shock_dims_sorted", F + "input_processing/create_params_template.py", "        dependencies = list(inspect.signature(next_var).parameters)", "        dependencies = sorted(inspect.signature(next_var).parameters)", "C07")
m("M29_vf_arr_list_not_shifted", F + "simulate.py", "    vf_arr_list = vf_arr_list[1:] + [None]", "    vf_arr_list = list(vf_arr_list)", "C02 C06")
m("M30_repeat_tile_swapped", F + "simulate.py", """            _combination_grid[name] = jnp.repeat(
                state,
                repeats=n_sc_product_combinations,
            )

        for name, choice in sc_product.items():
            _combination_grid[name] = jnp.tile(choice, reps=n_states)""", """            _combination_grid[name] = jnp.tile(
                state,
                reps=n_sc_product_combinations,
            )

        for name, choice in sc_product.items():
            _combination_grid[name] = jnp.repeat(choice, repeats=n_states)""", "C02 C08")
m("M31_sim_next_state_period_plus_one", F + "simulate.py", "            _period=jnp.repeat(period, n_initial_states),", "            _period=jnp.repeat(period + 1, n_initial_states),", "C03")
m("M32_period_column_tiled", F + "simulate.py", '    out["_period"] = jnp.repeat(jnp.arange(n_periods), n_initial_states)', '    out["_period"] = jnp.tile(jnp.arange(n_periods), n_initial_states)', "C13")
m("M33_key_not_advanced", F + "simulate.py", "        key, sim_keys = _generate_simulation_keys(", "        _, sim_keys = _generate_simulation_keys(", "C04")
m("M34_same_key_for_all_variables", F + "simulate.py", "    simulation_keys = dict(zip(ids, keys[1:], strict=True))", "    simulation_keys = dict.fromkeys(ids, keys[1])", "C04")
m("M35_same_key_for_all_agents", F + "random_choice.py", "    keys = jax.random.split(key, probs.shape[0])", "    keys = jax.numpy.broadcast_to(key, (probs.shape[0], *key.shape))", "C04")
m("M37_dense_choice_axes_off_by_one", F + "simulate.py", "        i + 1 for i, ax in enumerate(discrete_dense_choice_vars) if ax in choice_vars", "        i for i, ax in enumerate(discrete_dense_choice_vars) if ax in choice_vars", "C02")
m("M41_logsumexp_no_max_shift", F + "discrete_problem.py", """    exp = jnp.exp(a - segmax[segment_info["segment_ids"]])""", """    segmax = jnp.zeros_like(segmax)
    exp = jnp.exp(a - segmax[segment_info["segment_ids"]])""", "C20")
m("M42_scale_applied_once", F + "discrete_problem.py", "        out = scale * jax.scipy.special.logsumexp(out / scale, axis=choice_axes)", "        out = jax.scipy.special.logsumexp(out / scale, axis=choice_axes)", "C20")
m("M43_dense_choice_axes_ignore_sparse", F + "discrete_problem.py", '    axes = ["__sparse__", *dense_vars] if has_sparse else dense_vars', "    axes = dense_vars", "C01 C18 C05")
m("M44_productmap_not_reversed", F + "dispatchers.py", "    for pos in reversed(positions):", "    for pos in positions:", "C19 C01 C05")
m("M46_kwargs_sorted_by_name", F + "functools.py", "    sorted_kwargs = dict(sorted(kwargs.items(), key=lambda kw: parameters.index(kw[0])))", "    sorted_kwargs = dict(sorted(kwargs.items()))", "C19 C10")
m("M47_extra_kwargs_not_rejected", F + "functools.py", """        extra = set(kwargs).difference(parameters)
        if extra:""", """        extra = set(kwargs).difference(parameters)
        if False and extra:""", "C19")
m("M49_lookup_axes_reversed", F + "function_representation.py", "    _lookup_axes = [var for var in _internal_axes if var in funcs]", "    _lookup_axes = [var for var in _internal_axes if var in funcs][::-1]", "C14 C01")
m("M50_interpolation_axes_reversed", F + "function_representation.py", """        _interpolation_axes = [
            f"__{var}_coord__"
            for var in space_info.axis_names
            if var in space_info.interpolation_info
        ]""", """        _interpolation_axes = [
            f"__{var}_coord__"
            for var in space_info.axis_names
            if var in space_info.interpolation_info
        ][::-1]""", "C14 C01")
m("M51_zero_periods_accepted", F + "user_model.py", "    if model.n_periods < 1:", "    if model.n_periods < 0:", "C12")
m("M52_overlap_check_removed", F + "user_model.py", "    if states_and_choices_overlap:", "    if False and states_and_choices_overlap:", "C12")
m("M53_filter_params_not_rejected", F + "input_processing/process_model.py", "                if params.get(name, False):", "                if False and params.get(name, False):", "C12")
m("M57_solve_cached_on_params_id", F + "entry_point.py", "    solve_model = jax.jit(_solve_model) if jit else _solve_model", """    _jitted = jax.jit(_solve_model) if jit else _solve_model
    _cache = {}

    def solve_model(params):
        if id(params) not in _cache:
            _cache[id(params)] = _jitted(params)
        return _cache[id(params)]""", "C09")
m("M58_params_captured_at_first_call", F + "entry_point.py", "    solve_model = jax.jit(_solve_model) if jit else _solve_model", """    _jitted = jax.jit(_solve_model) if jit else _solve_model
    _first = []

    def solve_model(params):
        if not _first:
            _first.append(params["beta"])
        return _jitted({**params, "beta": _first[0]})""", "C09 C11")
m("M60_agent_major_index", F + "simulate.py", """    index = pd.MultiIndex.from_product(
        [range(n_periods), range(n_initial_states)],
        names=["period", "initial_state_id"],
    )""", """    index = pd.MultiIndex.from_product(
        [range(n_initial_states), range(n_periods)],
        names=["initial_state_id", "period"],
    ).swaplevel()""", "C13")
m("M61_segment_argmax_num_segments", F + "simulate.py", '        "num_segments": len(jnp.unique(segments)),', '        "num_segments": int(segments.max()) + 1 if len(segments) else 0,', "C02")
m("M62_sim_discrete_state_labels_from_arange", F + "next_state.py", '    labels = grids[name.removeprefix("next_")]', '    labels = grids[name.removeprefix("next_")][::-1]', "C03 C04")
m("M63_is_last_period_off", F + "entry_point.py", "            is_last_period=is_last_period,\n        )\n\n        compute_ccv = ", "            is_last_period=is_last_period or (period == 0 and _mod.n_periods > 3),\n        )\n\n        compute_ccv = ", "C01 C11")
m("M64_jit_false_skips_mask", F + "entry_point.py", """    compute_ccv_functions = []""", """    compute_ccv_functions = []
    _jit_flag = jit""", "NONE")

m("M66_default_params_shared_and_updated", F + "input_processing/create_params_template.py", "    return default_params | function_params | stochastic_transition_params", "    default_params.update(function_params)\n    default_params.update(stochastic_transition_params)\n    return default_params", "C07 C09")
m("M67_user_functions_dict_not_copied", F + "input_processing/process_model.py", "    raw_functions = deepcopy(model.functions)", "    raw_functions = model.functions", "C09")
m("M68_backward_loop_uses_last_period_values", F + "solve_brute.py", "        reversed_solution.append(vf_arr)", "        reversed_solution.append(vf_arr)\n        vf_arr = reversed_solution[0]", "C01 C11")
m("M69_dense_argmax_unravel_reversed_shape", F + "simulate.py", "        indices = jnp.unravel_index(dense_argmax, shape=dense_vars_grid_shape)\n        out = ccv_policy[indices]", "        indices = jnp.unravel_index(dense_argmax, shape=dense_vars_grid_shape[::-1])[::-1]\n        out = ccv_policy[indices]", "C02")
m("M70_cont_choice_unravel_reversed", F + "simulate.py", "        indices = vmapped_unravel_index(indices, grid_shape)", "        indices = vmapped_unravel_index(indices, grid_shape[::-1])[::-1]", "C02")
m("M71_segment_ids_from_unfiltered_states", F + "simulate.py", "    segments = state_ids[mask]", "    segments = state_ids[: int(mask.sum())]", "C02 C08")
m("M72_additional_targets_use_template_params", F + "simulate.py", "            params=params,\n        )\n        processed = {**processed, **calculated_targets}", "            params={k: (v if k == \"beta\" or k == \"shocks\" else {kk: 1.0 for kk in v}) for k, v in params.items()},\n        )\n        processed = {**processed, **calculated_targets}", "C13")
os.makedirs(os.path.join(ROOT, "mutants"), exist_ok=True)
bad = 0
for name, file, old, new, props in M:
    if props == "NONE":
        continue
    src = open(os.path.join("/repo", file)).read()
    if src.count(old) != 1:
        print("NOT-UNIQUE/ABSENT", name, src.count(old))
        bad += 1
        continue
    dst = src.replace(old, new)
    diff = "".join(difflib.unified_diff(src.splitlines(True), dst.splitlines(True), "a/" + file, "b/" + file))
    with open(os.path.join(ROOT, "mutants", name + ".patch"), "w") as f:
        f.write(f"# props: {props}\n" + diff)
print(len(M) - bad, "mutants written")
sys.exit(1 if bad else 0)
